"""Heap objects, containers, iterators, calls (contracts, inlining, modelled builtins)."""
import ast
import z3

from .sorts import *
from .engine import (OutOfSubset, PathEnd, PyExc, ReturnSig, BreakSig, ContinueSig, Const, FuncVal, Builtin,
                     LambdaVal, ClassVal, Frame, exc_isa, MatchVal)
from .source import Contract
from .ops import lift, liftable, is_val

CONTAINER_IDS = (1, 2, 3, 4)
LIST_METHODS = {'append', 'extend', 'insert', 'pop', 'popleft', 'index', 'sort', 'copy', 'reverse', 'appendleft'}
DICT_METHODS = {'get', 'setdefault', 'items', 'keys', 'values', 'pop', 'update', 'copy', 'clear'}
SET_METHODS = {'add', 'discard', 'remove', 'update', 'pop', 'copy', 'clear'}
STR_METHODS = {'isascii', 'find', 'count', 'split', 'join', 'format', 'isalpha', 'isdigit', 'isnumeric', 'islower',
               'capitalize', 'startswith', 'endswith', 'lower', 'upper', 'strip', 'replace', 'index', 'isupper'}


_REC_FUNS = {}


class IterVal:
    pass


vlen = z3.RecFunction('vlen', VList, I)
_l = z3.Const('l!vlen', VList)
z3.RecAddDefinition(vlen, [_l], z3.If(VList.is_Nil(_l), z3.IntVal(0), 1 + vlen(VList.tl(_l))))


class RangeIter(IterVal):
    def __init__(self, lo, hi):
        self.lo, self.hi = lo, hi

    def has_next(self, run, k):
        k = k if not isinstance(k, int) else z3.IntVal(k)
        return self.lo + k < self.hi

    def item(self, run, k):
        return VInt(z3.simplify(self.lo + k))

    def in_range(self, run, k):
        return z3.Or(k == 0, self.lo + k <= self.hi)

    def remaining(self, run, k):
        return self.hi - self.lo - k

    def finish(self, run, k):
        pass

    def length(self, run):
        return z3.If(self.hi - self.lo < 0, z3.IntVal(0), self.hi - self.lo)


class StaticIter(IterVal):
    def __init__(self, items):
        self.items = items

    def has_next(self, run, k):
        if isinstance(k, int):
            return z3.BoolVal(k < len(self.items))
        return k < len(self.items)

    def item(self, run, k):
        if isinstance(k, int):
            return self.items[k]
        r = None
        for i in reversed(range(len(self.items))):
            r = self.items[i] if r is None else z3.If(k == i, self.items[i], r)
        return r

    def in_range(self, run, k):
        return k <= len(self.items)

    def remaining(self, run, k):
        return len(self.items) - k

    def finish(self, run, k):
        pass

    def length(self, run):
        return z3.IntVal(len(self.items))


class ListIter(IterVal):
    """Iteration over a heap list: the length is re-read on every step, as CPython's list iterator does."""

    def __init__(self, ref):
        self.ref = ref

    def _len(self, run):
        return run.lget(Value.a(self.ref), 'len')

    def has_next(self, run, k):
        return (z3.IntVal(k) if isinstance(k, int) else k) < self._len(run)

    def item(self, run, k):
        v = z3.Select(run.lget(Value.a(self.ref), 'items'), k)
        return z3.simplify(v)

    def in_range(self, run, k):
        return k <= self._len(run)

    def remaining(self, run, k):
        return self._len(run) - k

    def finish(self, run, k):
        pass

    def length(self, run):
        return self._len(run)


class EnumIter(IterVal):
    def __init__(self, inner, start=0):
        self.inner, self.start = inner, start

    def has_next(self, run, k):
        return self.inner.has_next(run, k)

    def item(self, run, k):
        return VTup([VInt(z3.simplify(self.start + k)), self.inner.item(run, k)])

    def in_range(self, run, k):
        return self.inner.in_range(run, k)

    def remaining(self, run, k):
        return self.inner.remaining(run, k)

    def finish(self, run, k):
        self.inner.finish(run, k)

    def length(self, run):
        return self.inner.length(run)


class DictIter(IterVal):
    """Iteration over a dict/set in an arbitrary (abstract) order given by the ghost key vector dict.keys."""

    def __init__(self, ref, mode):
        self.ref, self.mode = ref, mode
        self.axiom_done = False

    def axiom(self, run):
        """The ghost key vector enumerates exactly the present keys (definition of the abstract iteration order)."""
        if self.axiom_done:
            return
        self.axiom_done = True
        a = Value.a(self.ref)
        keys = z3.Select(run.field('dict.keys'), a)
        has = z3.Select(run.field('dict.has'), a)
        n = z3.Select(run.field('dict.n'), a)
        k = z3.Const('k!enum', Value)
        j = z3.Int('j!enum')
        pos = z3.Function('dict_pos', I, Value, I)      # witness: position of a present key
        run.assume(z3.ForAll([k], z3.Implies(z3.Select(has, k),
                                             z3.And(pos(a, k) >= 0, pos(a, k) < n, z3.Select(keys, pos(a, k)) == k)),
                             patterns=[z3.Select(has, k)]))
        run.assume(z3.ForAll([j], z3.Implies(z3.And(j >= 0, j < n), z3.Select(has, z3.Select(keys, j))),
                             patterns=[z3.Select(keys, j)]))
        run.assume(n >= 0)

    def has_next(self, run, k):
        self.axiom(run)
        return (z3.IntVal(k) if isinstance(k, int) else k) < z3.Select(run.field('dict.n'), Value.a(self.ref))

    def item(self, run, k):
        a = Value.a(self.ref)
        key = z3.Select(z3.Select(run.field('dict.keys'), a), k)
        run.assume(z3.Select(z3.Select(run.field('dict.has'), a), key))
        kt = run.dict_key_type.get(z3.simplify(a).sexpr())
        if kt:
            run.assume(run.type_constraint(key, kt))
        if self.mode == 'keys':
            return key
        val = z3.Select(z3.Select(run.field('dict.val'), a), key)
        if self.mode == 'values':
            return val
        return VTup([key, val])

    def in_range(self, run, k):
        return k <= z3.Select(run.field('dict.n'), Value.a(self.ref))

    def remaining(self, run, k):
        return z3.Select(run.field('dict.n'), Value.a(self.ref)) - k

    def finish(self, run, k):
        pass

    def length(self, run):
        return z3.Select(run.field('dict.n'), Value.a(self.ref))


class ProductIter(IterVal):
    """itertools.product(A, B) with B of statically known length m: step k yields (A[k div m], B[k mod m])."""

    def __init__(self, outer, inner_items):
        self.outer, self.inner = outer, inner_items
        self.m = len(inner_items)

    def has_next(self, run, k):
        k = z3.IntVal(k) if isinstance(k, int) else k
        return k < self.outer.length(run) * self.m

    def item(self, run, k):
        k = z3.IntVal(k) if isinstance(k, int) else k
        q = z3.simplify(k / self.m)
        r = z3.simplify(k % self.m)
        inner = None
        for i in reversed(range(self.m)):
            inner = self.inner[i] if inner is None else z3.If(r == i, self.inner[i], inner)
        return VTup([self.outer.item(run, q), inner])

    def in_range(self, run, k):
        return k <= self.outer.length(run) * self.m

    def remaining(self, run, k):
        return self.outer.length(run) * self.m - k

    def finish(self, run, k):
        pass

    def length(self, run):
        return self.outer.length(run) * self.m


class GenIter(IterVal):
    """Iteration over a generator object (ghost fields gen.items / gen.n / gen.pos / gen.exc): the k-th step of the
    loop reads item pos0 + k; when the items are exhausted the generator raises its terminal exception, if any."""

    def __init__(self, ref, pos0, run):
        self.ref, self.pos0 = ref, pos0

    def _n(self, run):
        return z3.Select(run.field('gen.n'), Value.a(self.ref))

    def has_next(self, run, k):
        k = z3.IntVal(k) if isinstance(k, int) else k
        return self.pos0 + k < self._n(run)

    def item(self, run, k):
        a = Value.a(self.ref)
        v = z3.simplify(z3.Select(z3.Select(run.field('gen.items'), a), z3.simplify(self.pos0 + k)))
        ety = run.iter_elem.get(z3.simplify(a).sexpr())
        if ety:
            run.assume_type(v, ety)
        run.heap['gen.pos'] = z3.Store(run.field('gen.pos'), a, z3.simplify(self.pos0 + k + 1))
        gy = run.gen_yields.get(z3.simplify(a).sexpr())
        if gy is not None:
            # every item satisfies the generator's `yields` clauses (those that speak about the item and the
            # arguments only: allocation / ghost-output notions are relative to the generator's own frame)
            c, fn, rel, env = gy
            for cl in c.of('yields'):
                names = {n.id for n in ast.walk(cl.expr) if isinstance(n, ast.Name)}
                if names & {'fresh', 'allocated', 'old', 'yielded_concat', 'yielded_count'}:
                    continue
                e2 = dict(env)
                e2['item'] = v
                run.frames.append(Frame(fn, rel, e2, c))
                try:
                    run.assume_spec(cl.expr)
                finally:
                    run.frames.pop()
        return v

    def in_range(self, run, k):
        return self.pos0 + k <= self._n(run)

    def remaining(self, run, k):
        return self._n(run) - self.pos0 - k

    def finish(self, run, k):
        a = Value.a(self.ref)
        exc = z3.Select(run.field('gen.exc'), a)
        if run.branch(exc == 0):
            return
        code = 1
        for c, name in sorted(run.GEN_EXC.items()):
            if c and run.feasible(exc == c):
                if run.branch(exc == c):
                    raise PyExc(name, 'generator raised when exhausted')
        raise PathEnd()

    def length(self, run):
        return self._n(run) - self.pos0


class CallsMixin:
    # ------------------------------------------------------------------ allocation
    def new_addr(self, cls):
        a = z3.simplify(self.alloc)
        self.alloc = z3.simplify(self.alloc + 1)
        self.heap['cls'] = z3.Store(self.field('cls'), a, self.class_id(cls))
        return a

    def new_list(self, items, cls='list'):
        a = self.new_addr(cls)
        if self.alloc_region and cls == 'list':
            self.region[z3.simplify(a).sexpr()] = self.alloc_region
        arr = z3.K(I, VNone)
        for i, it in enumerate(items):
            arr = z3.Store(arr, i, it)
        self.lset(a, 'len', z3.IntVal(len(items)))
        self.lset(a, 'items', arr)
        return VRef(a)

    def new_list_sym(self, n, arr, cls='list'):
        a = self.new_addr(cls)
        if self.alloc_region and cls == 'list':
            self.region[z3.simplify(a).sexpr()] = self.alloc_region
        self.lset(a, 'len', n)
        self.lset(a, 'items', arr)
        return VRef(a)

    def new_dict(self, cls='dict'):
        a = self.new_addr(cls)
        self.heap['dict.n'] = z3.Store(self.field('dict.n'), a, 0)
        self.heap['dict.has'] = z3.Store(self.field('dict.has'), a, z3.K(Value, z3.BoolVal(False)))
        self.heap['dict.val'] = z3.Store(self.field('dict.val'), a, z3.K(Value, VNone))
        return VRef(a)

    def mod_pred(self, e):
        """A `modifies` entry as a membership predicate on addresses: a single object expression, or
        each(<expr> for v in <range/anyvalue> if <cond>) for a family of objects."""
        if isinstance(e, ast.Call) and isinstance(e.func, ast.Name) and e.func.id == 'each':
            ge = e.args[0]
            g = ge.generators[0]
            frame_env = dict(self.frames[-1].env)
            heap, alloc = dict(self.heap), self.alloc
            run = self

            def pred(x, witness=None, ge=ge, g=g, frame_env=frame_env, heap=heap, alloc=alloc):
                saved = (run.heap, run.alloc, run.frames[-1].env, dict(run.bound))
                run.heap, run.alloc = dict(heap), alloc
                run.frames[-1].env = dict(frame_env)
                run.spec_mode += 1
                try:
                    if isinstance(g.iter, ast.Call) and isinstance(g.iter.func, ast.Name) and g.iter.func.id == 'anyvalue':
                        if witness is not None and not (is_val(witness) and witness.sort() == Value):
                            return z3.BoolVal(False)
                        v = witness if witness is not None else z3.Const('v!m%d' % run._qcount(), Value)
                        run._bind_target(g.target, v)
                        rng = []
                        qv = v
                    else:
                        if witness is not None and not z3.is_int(witness):
                            return z3.BoolVal(False)
                        it = run.make_iter(g.iter)
                        k = witness if witness is not None else z3.Int('k!m%d' % run._qcount())
                        rng = [k >= 0, it.has_next(run, k)]
                        run._bind_target(g.target, it.item(run, k))
                        qv = k
                    conds = [run.truth(run.ev(c)) for c in g.ifs]
                    obj = run.val(run.ev(ge.elt))
                    body = z3.And(rng + conds + [Value.a(obj) == x])
                    return body if witness is not None else z3.Exists([qv], body)
                finally:
                    run.spec_mode -= 1
                    run.heap, run.alloc, run.frames[-1].env, run.bound = saved[0], saved[1], saved[2], saved[3]
            pred.family = True
            return pred
        m = Value.a(self.val(self.ev_spec_val(e)))
        f = lambda x, witness=None, m=m: x == m
        f.single = m
        f.hints = []
        if isinstance(e, ast.Subscript) and not isinstance(e.slice, ast.Slice):
            # the object was named as container[key]: offer key as the witness for a family entry of the caller
            try:
                kv = self.ev_spec_val(e.slice)
                kv = self.val(kv)
                f.hints.append(kv)
                if static_tag(kv) == 'VInt' or self.tagcache.get(kv.sexpr()) == 'VInt':
                    f.hints.append(z3.simplify(Value.i(kv)))
                else:
                    f.hints.append(Value.i(kv))
            except Exception:
                pass
        return f

    def check_write(self, addr, node):
        """Frame obligation: a written object is in the modifies clause or was allocated by this call."""
        if self.spec_mode or self.entry is None:
            return
        ok = z3.Or([addr >= self.entry.alloc] + [m(addr) for m in self.mods])
        ok = z3.simplify(ok)
        if z3.is_true(ok):
            return
        self.oblige(ok, 'frame', 'frame@%s' % self.snippet(node), node)

    # ------------------------------------------------------------------ lists
    def cls_of(self, ref):
        a = z3.simplify(Value.a(ref))
        k = self.known_cls.get(a.sexpr())
        if k is not None:
            return z3.IntVal(k)
        return z3.simplify(z3.Select(self.field('cls'), a))

    def ref_kind(self, ref, candidates):
        """Decide the container class of a reference among candidate class names (forks if undetermined)."""
        c = self.cls_of(ref)
        if z3.is_int_value(c):
            for n in candidates:
                if self.class_id(n) == c.as_long():
                    return n
            return None
        feas = [n for n in candidates if self.feasible(c == self.class_id(n))]
        other = self.feasible(z3.And([c != self.class_id(n) for n in candidates]))
        opts = feas + ([None] if other else [])
        if not opts:
            raise PathEnd()
        pick = opts[0] if len(opts) == 1 else opts[self.ch.choose(len(opts))]
        if pick is None:
            self.assume(z3.And([c != self.class_id(n) for n in candidates]))
        else:
            self.assume(c == self.class_id(pick))
        return pick

    # ---- list storage: a list object lives in the global list arrays, or - for a list held only by one local
    # variable of the function under verification that is never passed on, returned or stored - in private arrays
    # (its own memory region), so that writes to it cannot interfere with anything else and need no framing
    def lfield(self, a, which):
        r = self.region.get(z3.simplify(a).sexpr())
        return ('list.%s@%s' % (which, r)) if r else 'list.' + which

    def lget(self, a, which):
        return z3.Select(self.field(self.lfield(a, which)), a)

    def lset(self, a, which, v):
        name = self.lfield(a, which)
        self.heap[name] = z3.Store(self.field(name), a, v)

    def list_len(self, ref):
        n = self.lget(Value.a(ref), 'len')
        if not z3.is_int_value(z3.simplify(n)):
            self.assume(n >= 0)     # heap typing invariant: list lengths are non-negative
        return n

    def list_arr(self, ref):
        return self.lget(Value.a(ref), 'items')

    def list_static_items(self, ref, node=None, maxlen=8):
        n = z3.simplify(self.list_len(ref))
        if not z3.is_int_value(n):
            k = 0
            while True:
                if k > maxlen:
                    raise OutOfSubset('list of unbounded length used as static sequence')
                if self.branch(n == k):
                    break
                k += 1
        else:
            k = n.as_long()
        arr = self.list_arr(ref)
        return [z3.simplify(z3.Select(arr, i)) for i in range(k)]

    def ref_get_item(self, obj, idx, node):
        a = Value.a(obj)
        if self.spec_mode:
            c = self.cls_of(obj)
            if z3.is_int_value(c) and c.as_long() in (1, 4):
                # specification indices are plain (non-negative) positions
                return z3.Select(self.lget(a, 'items'), self.as_int(idx))
            if z3.is_int_value(c) and c.as_long() == 2:
                return z3.Select(z3.Select(self.field('dict.val'), a), idx)
            if not z3.is_int_value(c):
                it = static_tag(idx)
                if it == 'VStr' or it == 'VTup':
                    return z3.Select(z3.Select(self.field('dict.val'), a), idx)
                if it == 'VInt':
                    return z3.If(c == 2, z3.Select(z3.Select(self.field('dict.val'), a), idx),
                                 z3.Select(self.lget(a, 'items'), Value.i(idx)))
                return z3.If(c == 2, z3.Select(z3.Select(self.field('dict.val'), a), idx),
                             z3.Select(self.lget(a, 'items'), Value.i(idx)))
        kind = self.ref_kind(obj, ['list', 'deque', 'dict'])
        if kind in ('list', 'deque'):
            n = self.list_len(obj)
            i = self.as_int(idx)
            i2 = self.norm_index(i, n)
            if not self.spec_mode:
                self.instantiate(i2)
                self.instantiate(a)       # frame axioms of earlier calls/loops at this object's address
            if not self.spec_mode and not self.branch(z3.And(i2 >= 0, i2 < n)):
                raise PyExc('IndexError', self.snippet(node), implicit='index')
            v = z3.simplify(z3.Select(self.list_arr(obj), z3.simplify(i2)))
            self.assume_elem_type(obj, v)
            return v
        if kind == 'dict':
            has = z3.Select(z3.Select(self.field('dict.has'), a), idx)
            if not self.spec_mode:
                self.instantiate(idx)        # facts quantified over all keys, at the key actually looked up
            if not self.spec_mode and not self.branch(has):
                raise PyExc('KeyError', self.snippet(node), implicit='key')
            return z3.simplify(z3.Select(z3.Select(self.field('dict.val'), a), idx))
        if self.spec_mode:
            return z3.Select(self.list_arr(obj), self.as_int(idx))
        raise PyExc('TypeError', 'subscript of object ' + self.snippet(node), implicit='type')

    def assume_elem_type(self, obj, v):
        """Heap typing assumption for list elements (declared in FIELD_TYPES as list[T]); checked at writes."""
        ty = self.list_elem_type.get(z3.simplify(Value.a(obj)).sexpr())
        if ty and static_tag(v) is None and not self.spec_mode:
            self.assume_type(v, ty)

    def set_item(self, obj, idx, v, node):
        obj = self.val(obj)
        t = static_tag(obj) or self.tag(obj)
        if t != 'VRef':
            raise PyExc('TypeError', 'item assignment on ' + t, implicit='type')
        kind = self.ref_kind(obj, ['list', 'deque', 'dict'])
        a = Value.a(obj)
        self.check_write(a, node)
        if kind in ('list', 'deque'):
            n = self.list_len(obj)
            i2 = self.norm_index(self.as_int(idx), n)
            if not self.branch(z3.And(i2 >= 0, i2 < n)):
                raise PyExc('IndexError', self.snippet(node), implicit='index')
            self.lset(a, 'items', z3.Store(self.list_arr(obj), i2, v))
        elif kind == 'dict':
            self.dict_set(obj, self.val(idx), v, node)
        else:
            raise PyExc('TypeError', 'item assignment on object', implicit='type')

    def dict_set(self, d, k, v, node):
        a = Value.a(d)
        self.static_dicts.pop(z3.simplify(a).sexpr(), None)
        has = z3.Select(z3.Select(self.field('dict.has'), a), k)
        n = z3.Select(self.field('dict.n'), a)
        self.heap['dict.n'] = z3.Store(self.field('dict.n'), a, z3.If(has, n, n + 1))
        self.heap['dict.has'] = z3.Store(self.field('dict.has'), a,
                                         z3.Store(z3.Select(self.field('dict.has'), a), k, z3.BoolVal(True)))
        self.heap['dict.val'] = z3.Store(self.field('dict.val'), a,
                                         z3.Store(z3.Select(self.field('dict.val'), a), k, v))

    def ref_contains(self, container, item, node):
        a = Value.a(container)
        if self.spec_mode:
            c = self.cls_of(container)
            if z3.is_int_value(c) and c.as_long() in (2, 3):
                return z3.Select(z3.Select(self.field('dict.has'), a), item)
            if not z3.is_int_value(c):
                j = z3.Int('j!in%d' % self._qcount())
                in_list = z3.Exists([j], z3.And(j >= 0, j < self.lget(a, 'len'),
                                                z3.Select(self.lget(a, 'items'), j) == item))
                return z3.If(z3.Or(c == 2, c == 3), z3.Select(z3.Select(self.field('dict.has'), a), item), in_list)
        kind = self.ref_kind(container, ['list', 'deque', 'dict', 'set'])
        if kind in ('dict', 'set'):
            return z3.Select(z3.Select(self.field('dict.has'), a), item)
        if kind in ('list', 'deque'):
            j = self.fresh('j', I)
            arr = self.list_arr(container)
            n = self.list_len(container)
            return z3.Exists([j], z3.And(j >= 0, j < n, z3.Select(arr, j) == item))
        raise OutOfSubset('membership in object')

    def list_append(self, ref, v, node):
        a = Value.a(ref)
        self.check_write(a, node)
        n = self.list_len(ref)
        self.lset(a, 'items', z3.Store(self.list_arr(ref), n, v))
        self.lset(a, 'len', n + 1)

    def list_slice(self, ref, lo, hi, step, node):
        n = self.list_len(ref)
        arr = self.list_arr(ref)
        i = z3.Int('i!s')
        if step is not None:
            st = z3.simplify(self.as_int(step))
            if z3.is_int_value(st) and st.as_long() == -1 and lo is None and hi is None:
                new = z3.Lambda([i], z3.Select(arr, n - 1 - i))
                return self.new_list_sym(n, new)
            raise OutOfSubset('list slice with step')

        def norm(x, dflt):
            if x is None or static_tag(self.val(x)) == 'VNone':
                return dflt
            x = self.as_int(x)
            return z3.If(x < 0, z3.If(x + n < 0, z3.IntVal(0), x + n), z3.If(x > n, n, x))
        l2 = norm(lo, z3.IntVal(0))
        h2 = norm(hi, n)
        ln = z3.If(h2 - l2 < 0, z3.IntVal(0), h2 - l2)
        new = z3.Lambda([i], z3.Select(arr, l2 + i))
        return self.new_list_sym(z3.simplify(ln), new)

    def list_concat(self, a, b, node, inplace=False):
        if isinstance(b, Const):
            raise OutOfSubset('list + constant')
        kb = static_tag(b) or self.tag(b)
        n1 = self.list_len(a)
        arr1 = self.list_arr(a)
        i = z3.Int('i!c')
        if kb == 'VTup' and not inplace:
            raise PyExc('TypeError', 'list + tuple', implicit='type')
        if kb == 'VTup':
            items = self.static_items(b, node)
            for it in items:
                self.list_append(a, it, node)
            return None
        n2 = self.list_len(b)
        arr2 = self.list_arr(b)
        new = z3.Lambda([i], z3.If(i < n1, z3.Select(arr1, i), z3.Select(arr2, i - n1)))
        if inplace:
            aa = Value.a(a)
            self.check_write(aa, node)
            self.lset(aa, 'items', new)
            self.lset(aa, 'len', n1 + n2)
            return None
        return self.new_list_sym(z3.simplify(n1 + n2), new)

    def list_repeat(self, a, n, node):
        items = self.list_static_items(a, node)
        if len(items) != 1:
            raise OutOfSubset('list repetition of non-singleton')
        n = z3.If(n < 0, z3.IntVal(0), n)
        return self.new_list_sym(z3.simplify(n), z3.K(I, items[0]))

    # ------------------------------------------------------------------ attributes
    def find_method(self, name):
        out = []
        for key in self.eng.repo.byname.get(name, []):
            qual = key.split('::')[1]
            if '.' in qual:
                out.append(key)
        return out

    def get_attr(self, obj, name, node):
        if isinstance(obj, Const):
            py = obj.py
            if not hasattr(py, name):
                raise PyExc('AttributeError', self.snippet(node), implicit='attr')
            r = getattr(py, name)
            return lift(r) if liftable(r) else Const(r, '%s.%s' % (obj.name, name))
        if isinstance(obj, (FuncVal,)):
            if name == 'cache_clear':
                return Builtin('cache_clear', obj)
            raise OutOfSubset('attribute of function')
        if isinstance(obj, ClassVal):
            # class-level constants of the running library (enum members, ...)
            rel = self.eng.repo.classes.get(obj.name, (None,))[0]
            if rel is not None:
                pycls = getattr(self.eng.repo.import_module(rel), obj.name, None)
                if pycls is not None and hasattr(pycls, name) and liftable(getattr(pycls, name)):
                    return lift(getattr(pycls, name))
            raise OutOfSubset('class attribute ' + self.snippet(node))
        if isinstance(obj, MatchVal):
            if name == 'groups':
                return Builtin('match.groups', obj)
            raise OutOfSubset('match attribute ' + name)
        if isinstance(obj, IterVal):
            raise OutOfSubset('attribute of iterator')
        obj = self.val(obj)
        t = static_tag(obj) or self.tagcache.get(obj.sexpr())
        if t is None and name in STR_METHODS and name not in self.eng.field_types and ('attr:' + name) not in self.heap:
            t = 'VStr' if self.spec_mode else None      # a str method name that is no attribute of any class
        if t is None:
            t = 'VRef' if self.spec_mode else self.tag(obj)
        if t == 'VStr':
            if name in STR_METHODS:
                return Builtin('str.' + name, obj)
            raise PyExc('AttributeError', self.snippet(node), implicit='attr')
        if t != 'VRef' and self.spec_mode:
            return self.fresh('undef')
        if t == 'VNone':
            raise PyExc('AttributeError', 'None.%s in %s' % (name, self.snippet(node)), implicit='none-attr')
        if t != 'VRef':
            raise PyExc('AttributeError', '%s.%s' % (t, name), implicit='attr')
        meths = self.find_method(name)
        if meths:
            key = meths[0]
            if len(meths) > 1:
                names = [k.split('::')[1].split('.')[0] for k in meths]
                pick = self.ref_kind(obj, names)
                if pick is None:
                    raise PyExc('AttributeError', self.snippet(node), implicit='attr')
                key = meths[names.index(pick)]
            fn = self.eng.repo.funcs[key]
            is_prop = any((isinstance(d, ast.Name) and d.id == 'property') for d in fn.decorator_list)
            fv = FuncVal(key, fn, obj)
            if is_prop:
                return self.call_func(fv, [], {}, node)
            return fv
        if name in LIST_METHODS | DICT_METHODS | SET_METHODS:
            if ('attr:' + name) not in self.heap and name not in self.eng.field_types:
                return Builtin('m.' + name, obj)
            # the name is also an attribute of library classes (e.g. Atom.index): decide by the object's class
            # (an object not KNOWN to be a container is read as an object; calling the resulting value as a method
            # would fail loudly as out-of-subset, never silently)
            c = self.cls_of(obj)
            if not self.spec_mode and z3.is_int_value(c) and c.as_long() in CONTAINER_IDS:
                return Builtin('m.' + name, obj)
        v = z3.simplify(z3.Select(self.field('attr:' + name), Value.a(obj)))
        ty = self.eng.field_types.get(name)
        if ty and static_tag(v) is None:
            if ty.startswith('list[') and ty.endswith(']'):
                self.list_elem_type[z3.simplify(Value.a(v)).sexpr()] = ty[5:-1]
                ty = 'list'
            self.assume_type(v, ty)
        return v

    def set_attr(self, obj, name, v, node):
        obj = self.val(obj)
        t = static_tag(obj) or self.tag(obj)
        if t != 'VRef':
            raise PyExc('AttributeError', 'attribute store on %s: %s' % (t, self.snippet(node)),
                        implicit='none-attr' if t == 'VNone' else 'attr')
        a = Value.a(obj)
        self.check_write(a, node)
        ty = self.eng.field_types.get(name)
        if ty:
            g = z3.simplify(self.type_constraint(v, ty))
            if not z3.is_true(g):
                self.oblige(g, 'heap-type', 'heap-type:%s@%s' % (name, self.snippet(node)), node)
        self.heap['attr:' + name] = z3.Store(self.field('attr:' + name), a, v)

    # ------------------------------------------------------------------ module globals on the heap
    def read_global(self, key):
        return z3.simplify(z3.Select(self.field('glob'), self.global_addr(key)))

    def global_addr(self, key):
        return z3.IntVal(-1 - sorted(self.eng.globals_decl).index(key))

    def write_global(self, key, v, node):
        if self.entry is not None and not self.spec_mode:
            allowed = set()
            c = self.frames[0].contract
            for cl in c.of('modifies_global'):
                allowed |= set(cl.extra['names'])
            if key.split('::')[1] not in allowed:
                self.oblige(z3.BoolVal(False), 'frame', 'frame-global:%s' % key, node)
        self.heap['glob'] = z3.Store(self.field('glob'), self.global_addr(key), v)
        # every memo table whose entries depend on this global is now possibly stale
        for fkey in self.eng.consts.get('MEMO_DEPENDS', {}).get(key, []):
            self.heap['memo'] = z3.Store(self.field('memo'), self.memo_addr(fkey), VInt(1))

    # ------------------------------------------------------------------ iteration
    def make_iter(self, node):
        v = self.ev(node)
        return self.as_iter(v, node)

    def as_iter(self, v, node):
        if isinstance(v, IterVal):
            return v
        if isinstance(v, Const):
            py = v.py
            if isinstance(py, (tuple, list)):
                return StaticIter([self.const_val(x) for x in py])
            if isinstance(py, (dict, set, frozenset)):
                keys = list(py) if not isinstance(py, (set, frozenset)) else sorted(py, key=repr)
                return StaticIter([self.const_val(x) for x in keys])
            raise OutOfSubset('iteration over constant %r' % v)
        v = self.val(v)
        t = static_tag(v) or self.tag(v)
        if t == 'VTup':
            return StaticIter(self.static_items(v, node))
        if t == 'VStr':
            raise OutOfSubset('iteration over str')
        if t == 'VRef':
            kind = self.ref_kind(v, ['list', 'deque', 'dict', 'set', 'gen'])
            if kind in ('list', 'deque'):
                return ListIter(v)
            if kind in ('dict', 'set'):
                return DictIter(v, 'keys')
            if kind == 'gen':
                return self.gen_iter(v, node)
        raise PyExc('TypeError', 'not iterable: ' + self.snippet(node), implicit='type')

    def gen_iter(self, v, node):
        a = Value.a(v)
        pos0 = z3.simplify(z3.Select(self.field('gen.pos'), a))
        self.check_write(a, node)
        return GenIter(v, pos0, self)

    def listcomp(self, node):
        if len(node.generators) != 1:
            raise OutOfSubset('nested comprehension')
        g = node.generators[0]
        it = self.make_iter(g.iter)
        if isinstance(it, StaticIter):
            out = []
            fr = self.frames[-1]
            for x in it.items:
                self.assign(g.target, x)
                if all(self.branch(self.truth(self.ev(c))) for c in g.ifs):
                    out.append(self.val(self.ev(node.elt)))
            return self.new_list(out)
        if g.ifs:
            raise OutOfSubset('filtered comprehension over symbolic sequence')
        # map over a symbolic sequence: result[i] = elt(seq[i]); elt must be a pure expression
        n = it.length(self)
        i = self.fresh('ci', I)
        fr = self.frames[-1]
        saved = dict(fr.env)
        self.spec_mode += 1
        try:
            self.assign(g.target, it.item(self, i))
            body = self.val(self.ev(node.elt))
        finally:
            self.spec_mode -= 1
            fr.env = saved
        arr = z3.Lambda([i], body)
        return self.new_list_sym(z3.simplify(n), arr)

    # ------------------------------------------------------------------ calls
    def ex_Call(self, node):
        f = node.func
        if isinstance(f, ast.Name) and f.id not in self.frames[-1].env:
            sp = getattr(self, 'sp_' + f.id, None)
            if sp is not None and (self.spec_mode or f.id in ('all', 'any', 'sum')):
                r = sp(node)
                if r is not NotImplemented:
                    return r
        fv = self.ev(f)
        args = []
        for a in node.args:
            if isinstance(a, ast.Starred):
                args.extend(self.static_items(self.ev(a.value), a))
            else:
                args.append(self.ev(a))
        kwargs = {}
        for kw in node.keywords:
            if kw.arg is None:
                raise OutOfSubset('**kwargs')
            kwargs[kw.arg] = self.ev(kw.value)
        return self.call_value(fv, args, kwargs, node)

    def call_value(self, fv, args, kwargs, node):
        if isinstance(fv, FuncVal):
            return self.call_func(fv, args, kwargs, node)
        if isinstance(fv, Builtin):
            return self.call_builtin(fv, args, kwargs, node)
        if isinstance(fv, Contract):
            if fv.kind == 'spec':
                return self.call_spec(fv, args, kwargs, node)
            return self.call_lemma(fv, args, kwargs, node)
        if isinstance(fv, ClassVal):
            return self.construct(fv, args, kwargs, node)
        if isinstance(fv, LambdaVal):
            return self.call_lambda(fv, args, kwargs, node)
        if isinstance(fv, Const):
            return self.call_const(fv, args, kwargs, node)
        if is_val(fv):
            return self.call_partial(fv, args, kwargs, node)
        raise OutOfSubset('call of %r' % (fv,))

    def bind_args(self, fn_args, args, kwargs, self_val=None, node=None):
        names = [a.arg for a in fn_args.args]
        defaults = [None] * (len(names) - len(fn_args.defaults)) + list(fn_args.defaults)
        env = {}
        pos = list(args)
        if self_val is not None:
            pos = [self_val] + pos
        if len(pos) > len(names) and not fn_args.vararg:
            raise PyExc('TypeError', 'too many arguments', implicit='type')
        for n, v in zip(names, pos):
            env[n] = v
        if fn_args.vararg:
            env[fn_args.vararg.arg] = VTup([self.val(x) for x in pos[len(names):]])
        for k, v in kwargs.items():
            if k in env or k not in names:
                raise PyExc('TypeError', 'bad keyword ' + k, implicit='type')
            env[k] = v
        for n, d in zip(names, defaults):
            if n not in env:
                if d is None:
                    raise PyExc('TypeError', 'missing argument ' + n, implicit='type')
                env[n] = self.ev(d)
        return env

    def call_generator(self, c, fv, args, kwargs, node):
        fn = fv.node
        env = self.bind_args(fn.args, args, kwargs, fv.self_val, node)
        env = {k: (self.val(v) if (is_val(v) or isinstance(v, Const)) else v) for k, v in env.items()}
        rel = c.target.split('::')[0]
        cname = c.target.split('::')[1]
        # the generator's preconditions are the caller's obligation at the call (its body runs when it is consumed)
        self.frames.append(Frame(fn, rel, env, c))
        try:
            for cl in c.of('requires'):
                g = self.ev_spec(cl.expr)
                self.frames.pop()
                self.oblige(g, 'pre', 'call:%s:pre:%s' % (cname, cl.tag or self.snippet(cl.expr)), node)
                self.frames.append(Frame(fn, rel, env, c))
        finally:
            self.frames.pop()
        a = self.new_addr('gen')
        self.gen_yields[z3.simplify(a).sexpr()] = (c, fn, rel, env)
        n = self.fresh('gen_n', I)
        exc = self.fresh('gen_exc', I)
        self.assume(n >= 0)
        codes = [0] + [k for k, name in self.GEN_EXC.items() if k and any(cl.extra['exc'] == name for cl in c.of('raises'))]
        self.assume(z3.Or([exc == k for k in codes]))
        self.heap['gen.n'] = z3.Store(self.field('gen.n'), a, n)
        self.heap['gen.pos'] = z3.Store(self.field('gen.pos'), a, z3.IntVal(0))
        self.heap['gen.exc'] = z3.Store(self.field('gen.exc'), a, exc)
        self.heap['gen.items'] = z3.Store(self.field('gen.items'), a, self.fresh('gen_items', ArrIV))
        ys = [cl for cl in c.of('returns')]
        for cl in c.of('yields_type'):
            self.iter_elem[z3.simplify(a).sexpr()] = cl.extra['type']
        return VRef(a)

    def call_func(self, fv, args, kwargs, node):
        c = self.eng.contracts.get(fv.key)
        if c is not None and self.is_generator(fv.node) and self.inlining_key != fv.key:
            return self.call_generator(c, fv, args, kwargs, node)
        if c is not None and not c.inline and not (self.inlining_key == fv.key):
            return self.call_contract(c, fv, args, kwargs, node)
        return self.inline_call(fv, args, kwargs, node)

    inlining_key = None

    def is_generator(self, fn):
        for n in ast.walk(fn):
            if isinstance(n, (ast.Yield, ast.YieldFrom)):
                return True
        return False

    def inline_call(self, fv, args, kwargs, node):
        fn = fv.node
        if self.is_generator(fn):
            raise OutOfSubset('call of generator function without contract: ' + fv.key)
        if self.depth >= self.eng.inline_depth:
            raise OutOfSubset('inline depth exceeded at ' + fv.key)
        if any(f.fn is fn for f in self.frames):
            raise OutOfSubset('recursive function without contract: ' + fv.key)
        env = self.bind_args(fn.args, args, kwargs, fv.self_val, node)
        self.frames.append(Frame(fn, fn._vrel, env, None))
        self.depth += 1
        try:
            self.exec_block(fn.body)
            r = VNone
        except ReturnSig as rs:
            r = rs.v
        finally:
            self.depth -= 1
            self.frames.pop()
        return r

    def call_lambda(self, lv, args, kwargs, node):
        fn = lv.node
        env = dict(lv.env)
        env.update(self.bind_args(fn.args, args, kwargs, None, node))
        fr = self.frames[-1]
        self.frames.append(Frame(fr.fn, fr.rel, env, None))
        try:
            if isinstance(fn, ast.Lambda):
                return self.ev(fn.body)
            try:
                self.exec_block(fn.body)
                return VNone
            except ReturnSig as rs:
                return rs.v
        finally:
            self.frames.pop()

    def call_contract(self, c, fv, args, kwargs, node):
        """Modular call: check the callee's requires, havoc its frame, assume its ensures."""
        fn = fv.node
        env = self.bind_args(fn.args, args, kwargs, fv.self_val, node)
        env = {k: (self.val(v) if (is_val(v) or isinstance(v, Const)) else v) for k, v in env.items()}
        caller = self.frames[-1]
        rel = c.target.split('::')[0]
        if not self.spec_mode:
            anns = {p[0]: p[1] for p in c.params}
            for name, v in env.items():     # integer arguments are typical indices: instantiate quantified facts there
                if is_val(v) and (static_tag(v) == 'VInt' or self.tagcache.get(v.sexpr()) == 'VInt'
                                  or anns.get(name) == 'int'):
                    iv = z3.simplify(Value.i(v))
                    if not z3.is_int_value(iv):
                        self.instantiate(iv)
        self.frames.append(Frame(fn, rel, env, c))
        try:
            cname = c.target.split('::')[1]
            for cl in c.of('ghost'):
                env[cl.extra['name']] = self.fresh('g_' + cl.extra['name'])
                self.assume(self.type_constraint(env[cl.extra['name']], cl.extra['type']))
            for cl in c.of('requires'):
                g = self.ev_spec(cl.expr)
                self.frames.pop()
                self.oblige(g, 'pre', 'call:%s:pre:%s' % (cname, cl.tag or self.snippet(cl.expr)), node)
                self.frames.append(Frame(fn, rel, env, c))
            # termination of recursion
            if self.contract is c and self.entry_measure is not None and c.of('decreases'):
                m = self.as_int(self.ev_spec_val(c.of('decreases')[0].expr))
                self.frames.pop()
                self.oblige(z3.And(m >= 0, m < self.entry_measure), 'variant', 'decreases:%s' % cname, node)
                self.frames.append(Frame(fn, rel, env, c))
            pre = (dict(self.heap), self.alloc)
            mods = []
            for cl in c.of('modifies'):
                for e in cl.extra['exprs']:
                    mods.append(self.mod_pred(e))
            for m in mods:
                # frame obligation of the caller: everything the callee may modify, the caller may modify (or is fresh)
                self.frames.pop()
                if not self.spec_mode and self.entry is not None:
                    x = z3.Int('x!fr%d' % self._qcount())
                    ok = z3.ForAll([x], z3.Implies(z3.And(m(x), x < self.entry.alloc),
                                                   z3.Or([mm(x) for mm in self.mods] + [z3.BoolVal(False)])))
                    single = getattr(m, 'single', None)
                    if single is not None:
                        alts = [single >= self.entry.alloc] + [mm(single) for mm in self.mods]
                        for mm in self.mods:
                            if getattr(mm, 'family', False):
                                for h in getattr(m, 'hints', []):
                                    alts.append(mm(single, witness=h))
                        ok = z3.Or(alts)
                    ok = z3.simplify(ok) if not z3.is_quantifier(ok) else ok
                    if not z3.is_true(ok):
                        self.oblige(ok, 'frame', 'frame@%s' % self.snippet(node), node)
                self.frames.append(Frame(fn, rel, env, c))
            raises = c.of('raises')
            opts = ['normal']
            for cl in raises:
                cond = self.ev_spec(cl.expr) if cl.expr is not None else z3.BoolVal(True)
                if self.feasible(cond):
                    opts.append((cl, cond))
            # normal exit may be infeasible when an exceptional condition is forced; the ensures decide that
            pick = opts[0] if len(opts) == 1 else opts[self.ch.choose(len(opts))]
            pure = bool(c.of('pure'))
            if pick != 'normal':
                cl, cond = pick
                self.assume(cond)
                if not cl.extra.get('unchanged') and not pure:
                    self.havoc_call(c, fn, rel, mods)
                self.frames.pop()
                self.frames.append(caller) if False else None
                raise PyExc(cl.extra['exc'], 'from %s' % cname)
            if not pure:
                self.havoc_call(c, fn, rel, mods)
            result = self.fresh('r_' + fn.name)
            env['result'] = result
            for cl in c.of('returns'):
                self.assume_type(result, cl.extra['type'])
            saved_old = self.old
            self.old = _Old(pre[0], pre[1], env)
            try:
                for cl in c.of('ensures'):
                    self.assume_spec(cl.expr)
            finally:
                self.old = saved_old
            return result
        finally:
            if self.frames[-1] is not caller:
                self.frames.pop()

    def havoc_call(self, c, fn, rel, mods):
        fields = self.written_fields(fn.body, rel)
        if not fields and not mods:
            return
        pre_alloc = self.alloc
        new_alloc = self.fresh('alloc', I)
        self.assume(new_alloc >= pre_alloc)
        a = z3.Int('a!f')
        for f in sorted(fields):
            old = self.field(f)
            new = self.fresh('H_' + f, field_sort(f))
            self.heap[f] = new
            self.len_axiom(f)
            # (the class of an allocated object never changes, whoever may modify the object)
            conds = [a < pre_alloc] + ([] if f == 'cls' else [z3.Not(m(a)) for m in mods])
            body = z3.Implies(z3.And(conds), z3.Select(new, a) == z3.Select(old, a))
            self.assume(z3.ForAll([a], body, patterns=[z3.Select(new, a)]))
        self.alloc = new_alloc
        self.instantiate_frames()

    def written_fields(self, stmts, rel, seen=None):
        """Heap fields that a block may write (syntactic, transitive over repository callees)."""
        seen = seen if seen is not None else set()
        out = set()
        repo = self.eng.repo
        for st in stmts:
            for n in ast.walk(st):
                if isinstance(n, ast.Attribute) and isinstance(n.ctx, ast.Store):
                    out.add('attr:' + n.attr)
                elif isinstance(n, ast.Subscript) and isinstance(n.ctx, ast.Store):
                    out.update(['list.items', 'dict.has', 'dict.val', 'dict.n', 'dict.keys'])
                elif isinstance(n, ast.AugAssign) and isinstance(n.target, ast.Subscript):
                    out.update(['list.items', 'dict.has', 'dict.val', 'dict.n', 'dict.keys'])
                elif isinstance(n, ast.AugAssign) and isinstance(n.target, ast.Name):
                    out.update(['list.items', 'list.len'])   # `xs += [...]` mutates in place
                elif isinstance(n, ast.Global):
                    out.add('glob')
                elif isinstance(n, (ast.List, ast.ListComp, ast.Dict, ast.Set, ast.DictComp, ast.SetComp)):
                    out.add('cls')
                elif isinstance(n, ast.Call):
                    name = None
                    if isinstance(n.func, ast.Name) and n.func.id == 'next':
                        out.add('gen.pos')
                    if isinstance(n.func, ast.Attribute):
                        name = n.func.attr
                        if name in LIST_METHODS:
                            out.update(['list.items', 'list.len'])
                        if name in DICT_METHODS | SET_METHODS:
                            out.update(['dict.has', 'dict.val', 'dict.n', 'dict.keys'])
                        if name == 'cache_clear':
                            out.add('memo')
                    elif isinstance(n.func, ast.Name):
                        name = n.func.id
                        if name in ('list', 'dict', 'set', 'sorted', 'deque', 'tuple'):
                            out.add('cls')
                    if name:
                        keys = [k for k in repo.byname.get(name, [])]
                        if name in repo.classes:
                            keys.append('%s::%s.__init__' % (repo.classes[name][0], name))
                            out.add('cls')
                        for k in keys:
                            if k in seen or k not in repo.funcs:
                                continue
                            seen.add(k)
                            out |= self.written_fields(repo.funcs[k].body, repo.funcs[k]._vrel, seen)
        return out

    # ------------------------------------------------------------------ constructors
    def construct(self, cv, args, kwargs, node):
        name = cv.name
        if name in self.eng.repo.classes:
            rel, cd = self.eng.repo.classes[name]
            a = self.new_addr(name)
            obj = VRef(a)
            key = '%s::%s.__init__' % (rel, name)
            if key in self.eng.repo.funcs:
                self.call_func(FuncVal(key, self.eng.repo.funcs[key], obj), args, kwargs, node)
            else:
                fields = [s for s in cd.body if isinstance(s, ast.AnnAssign)]
                vals = list(args)
                for i, s in enumerate(fields):
                    fname = s.target.id
                    if i < len(vals):
                        v = vals[i]
                    elif fname in kwargs:
                        v = kwargs[fname]
                    elif s.value is not None:
                        if isinstance(s.value, ast.Call):   # field(default_factory=list)
                            v = self.new_list([])
                        else:
                            v = self.ev(s.value)
                    else:
                        raise PyExc('TypeError', 'missing field ' + fname, implicit='type')
                    self.heap['attr:' + fname] = z3.Store(self.field('attr:' + fname), a, self.val(v))
            return obj
        # exception classes and other opaque classes
        return self.fresh('obj_' + name)

    # ------------------------------------------------------------------ spec functions and lemmas
    # (the class of an allocated object never changes, so `cls` is not an argument of the opaque form)
    BASE_FIELDS = ['list.len', 'list.items', 'dict.has', 'dict.val', 'dict.n', 'glob']

    def spec_fields(self, c, seen=None):
        """Heap fields a spec function may read (syntactic, transitive): the arguments of its opaque form."""
        cache = self.eng.__dict__.setdefault('spec_fields_cache', {})
        if c.name in cache:
            return cache[c.name]
        seen = seen or set()
        seen.add(c.name)
        out = set()
        for n in ast.walk(c.node):
            if isinstance(n, ast.Attribute):
                out.add('attr:' + n.attr)
            elif isinstance(n, ast.Call) and isinstance(n.func, ast.Name) and n.func.id in self.eng.specs \
                    and n.func.id not in seen:
                out |= set(self.spec_fields(self.eng.specs[n.func.id], seen))
        reads_heap = bool(out)
        for n in ast.walk(c.node):
            if isinstance(n, (ast.Subscript, ast.In, ast.NotIn)):
                reads_heap = True
            elif isinstance(n, ast.Call) and isinstance(n.func, ast.Name) and \
                    n.func.id in ('len', 'typed', 'iter_item', 'iter_len', 'iter_pos', 'dict_eq', 'memo_clean', 'fresh'):
                reads_heap = True
            elif isinstance(n, ast.Name) and any(k.endswith('::' + n.id) for k in self.eng.globals_decl):
                reads_heap = True
        # a spec function of its arguments only (no heap access) has an opaque form without heap arguments
        res = (self.BASE_FIELDS + sorted(out - set(self.BASE_FIELDS))) if reads_heap else []
        cache[c.name] = res
        return res

    def opaque_names(self):
        c = self.frames[0].contract if self.frames else None
        out = set()
        if c is not None:
            for cl in c.of('opaque'):
                out |= set(cl.extra['names'])
        return out

    def call_spec(self, c, args, kwargs, node):
        names = [p[0] for p in c.params]
        if len(args) != len(names):
            raise OutOfSubset('spec function arity: ' + c.name)
        if c.name in self.opaque_names():
            # opaque form: an uninterpreted predicate of the heap fields it may read and its arguments; two
            # occurrences over the same heap version are syntactically equal, no definition is unfolded
            fields = self.spec_fields(c)
            arrs = [self.field(f) for f in fields]
            vals = [self.val(a) for a in args]
            body = [st for st in c.node.body if isinstance(st, ast.Return)]
            e = body[0].value if body else None
            is_pred = isinstance(e, (ast.BoolOp, ast.Compare)) or \
                (isinstance(e, ast.UnaryOp) and isinstance(e.op, ast.Not)) or \
                (isinstance(e, ast.Call) and isinstance(e.func, ast.Name) and
                 e.func.id in ('all', 'any', 'implies', 'iff', 'typed', 'fresh'))
            F = z3.Function('P_' + c.name, *([a.sort() for a in arrs] + [Value] * len(vals) + [B if is_pred else Value]))
            return F(*(arrs + vals))
        if _is_recursive(c):
            return self.call_rec_spec(c, args, node)
        env = dict(zip(names, args))
        fr = self.frames[-1]
        self.frames.append(Frame(fr.fn, fr.rel, env, fr.contract))
        self.spec_mode += 1
        saved_bound = self.bound
        self.bound = {}
        try:
            body = c.node.body
            body = [s for s in body if not (isinstance(s, ast.Expr) and isinstance(s.value, ast.Constant))]
            if len(body) != 1 or not isinstance(body[0], ast.Return):
                raise OutOfSubset('spec function body must be a single return: ' + c.name)
            return self.ev(body[0].value)
        finally:
            self.bound = saved_bound
            self.spec_mode -= 1
            self.frames.pop()

    def spec_sort(self, ann):
        return {'int': I, 'bool': B, 'str': S}.get(ann, Value)

    def box(self, x, ann):
        if ann == 'int':
            return VInt(x)
        if ann == 'bool':
            return VBool(x)
        if ann == 'str':
            return VStr(x)
        return x

    def unbox(self, v, ann):
        if ann == 'int':
            return self.as_int(v)
        if ann == 'bool':
            return self.truth(v)
        if ann == 'str':
            return Value.s(self.val(v))
        return self.val(v)

    def call_rec_spec(self, c, args, node):
        """Recursive spec function: a z3 recursive definition; heap-independent (arguments only)."""
        cache = _REC_FUNS        # the z3 context is process-global, so is the table of recursive definitions
        ret_ann = ast.unparse(c.node.returns) if c.node.returns else 'any'
        if c.name not in cache:
            sorts_ = [self.spec_sort(p[1]) for p in c.params] + [self.spec_sort(ret_ann)]
            f = z3.RecFunction(c.name, *sorts_)
            cache[c.name] = f
            formals = [z3.FreshConst(self.spec_sort(p[1]), p[0]) for p in c.params]
            env = {p[0]: self.box(x, p[1]) for p, x in zip(c.params, formals)}
            fr = self.frames[-1]
            self.frames.append(Frame(fr.fn, fr.rel, env, fr.contract))
            self.spec_mode += 1
            saved_bound = self.bound
            self.bound = {}
            try:
                body = [s for s in c.node.body
                        if not (isinstance(s, ast.Expr) and isinstance(s.value, ast.Constant))]
                b = self.unbox(self.ev(body[0].value), ret_ann)
            finally:
                self.bound = saved_bound
                self.spec_mode -= 1
                self.frames.pop()
            z3.RecAddDefinition(f, formals, b)
        f = cache[c.name]
        zargs = [self.unbox(a, p[1]) for a, p in zip(args, c.params)]
        return self.box(f(*zargs), ret_ann)

    def call_lemma(self, c, args, kwargs, node):
        names = [p[0] for p in c.params]
        env = dict(zip(names, [self.val(a) for a in args]))
        fr = self.frames[-1]
        self.frames.append(Frame(fr.fn, fr.rel, env, c))
        self.spec_mode += 1
        try:
            reqs = [self.ev_spec(cl.expr) for cl in c.of('requires')]
            ens = [self.ev_spec(cl.expr) for cl in c.of('ensures')]
            m = None
            if self.contract is c and c.of('decreases'):
                m = self.as_int(self.ev_spec_val(c.of('decreases')[0].expr))
        finally:
            self.spec_mode -= 1
            self.frames.pop()
        for i, g in enumerate(reqs):
            self.oblige(g, 'pre', 'lemma:%s:pre%d@%s' % (c.name, i, self.snippet(node)), node)
        if m is not None:
            self.oblige(z3.And(m >= 0, m < self.entry_measure), 'variant', 'decreases:%s' % c.name, node)
        for g in ens:
            self.assume(g)
        return VNone

    # ------------------------------------------------------------------ spec-mode special forms
    def sp_old(self, node):
        if self.old is None:
            raise OutOfSubset('old() outside postcondition')
        saved = self.heap, self.alloc
        fr = self.frames[-1]
        saved_env = fr.env
        self.heap, self.alloc = dict(self.old.heap), self.old.alloc
        fr.env = dict(fr.env)
        fr.env.update(self.old.env)
        saved_bound = self.bound
        try:
            return self.ev(node.args[0])
        finally:
            self.heap, self.alloc = saved
            fr.env = saved_env

    def sp_implies(self, node):
        return z3.Implies(self.truth(self.ev(node.args[0])), self.truth(self.ev(node.args[1])))

    def sp_iff(self, node):
        return self.truth(self.ev(node.args[0])) == self.truth(self.ev(node.args[1]))

    def _quant(self, node, is_all):
        if len(node.args) != 1 or not isinstance(node.args[0], (ast.GeneratorExp, ast.ListComp)):
            return NotImplemented
        ge = node.args[0]
        if len(ge.generators) > 1:
            inner = ast.GeneratorExp(elt=ge.elt, generators=ge.generators[1:])
            call = ast.Call(func=ast.Name(id='all' if is_all else 'any', ctx=ast.Load()), args=[inner], keywords=[])
            ge = ast.GeneratorExp(elt=call, generators=ge.generators[:1])
            ast.fix_missing_locations(ge)
        g = ge.generators[0]
        if not self.spec_mode:
            # code mode: only over static sequences
            it = self.make_iter(g.iter)
            if not isinstance(it, StaticIter):
                raise OutOfSubset('all()/any() over symbolic sequence in code')
            res = []
            for x in it.items:
                self.assign(g.target, x)
                conds = [self.truth(self.ev(c)) for c in g.ifs]
                body = self.truth(self.ev(ge.elt))
                res.append(z3.Implies(z3.And(conds), body) if is_all else z3.And(conds + [body]))
            r = z3.And(res) if is_all else z3.Or(res)
            if not res:
                r = z3.BoolVal(is_all)
            return VBool(z3.simplify(r))
        if isinstance(g.iter, ast.Call) and isinstance(g.iter.func, ast.Name) and g.iter.func.id == 'anyvalue':
            v = z3.Const('v!q%d' % self._qcount(), Value)
            saved = dict(self.bound)
            self._bind_target(g.target, v)
            conds = [self.truth(self.ev(c)) for c in g.ifs]
            body = self.truth(self.ev(ge.elt))
            self.bound = saved
            if is_all:
                return z3.ForAll([v], z3.Implies(z3.And(conds), body) if conds else body)
            return z3.Exists([v], z3.And(conds + [body]))
        it = self.make_iter(g.iter)
        if isinstance(it, StaticIter) and len(it.items) <= 16:
            res = []
            saved = dict(self.bound)
            for x in it.items:
                self._bind_target(g.target, x)
                conds = [self.truth(self.ev(c)) for c in g.ifs]
                body = self.truth(self.ev(ge.elt))
                res.append(z3.Implies(z3.And(conds), body) if is_all else z3.And(conds + [body]))
            self.bound = saved
            return (z3.And(res) if is_all else z3.Or(res)) if res else z3.BoolVal(is_all)
        k = z3.Int('%s!q%d' % ('q', self._qcount()))
        saved = dict(self.bound)
        rng = z3.And(k >= 0, it.has_next(self, k))
        self._bind_target(g.target, it.item(self, k))
        conds = [self.truth(self.ev(c)) for c in g.ifs]
        body = self.truth(self.ev(ge.elt))
        self.bound = saved
        if is_all:
            return z3.ForAll([k], z3.Implies(z3.And([rng] + conds), body))
        return z3.Exists([k], z3.And([rng] + conds + [body]))

    def _qcount(self):
        self.counter += 1
        return self.counter

    def _bind_target(self, target, v):
        if isinstance(target, ast.Name):
            self.bound[target.id] = v
        elif isinstance(target, ast.Tuple):
            items = self.static_items(v, target)
            for t, it in zip(target.elts, items):
                self._bind_target(t, it)
        else:
            raise OutOfSubset('quantifier target')

    def sp_all(self, node):
        return self._quant(node, True)

    def sp_any(self, node):
        return self._quant(node, False)

    def sp_sum(self, node):
        return NotImplemented

    def sp_isinstance(self, node):
        v = self.val(self.ev(node.args[0]))
        tn = node.args[1]
        names = [e.id for e in tn.elts] if isinstance(tn, ast.Tuple) else [tn.id]
        return z3.Or([self.type_constraint(v, n) for n in names])

    def sp_typed(self, node):
        v = self.ev(node.args[0])
        if isinstance(v, Const) and not liftable(v.py):
            from . import monitor
            return z3.BoolVal(monitor.typed(v.py, ast.literal_eval(node.args[1]).split('[')[0]))
        v = self.val(v)
        return self.type_constraint(v, ast.literal_eval(node.args[1]))

    def sp_fresh(self, node):
        v = self.ev(node.args[0])
        if isinstance(v, Const):
            return z3.BoolVal(False)      # a module-level object is never freshly allocated
        v = self.val(v)
        ref = self.old if self.old is not None else self.entry
        base = ref.alloc if ref is not None else self.alloc
        return z3.And(Value.is_VRef(v), Value.a(v) >= base, Value.a(v) < self.alloc)

    def sp_allocated(self, node):
        v = self.val(self.ev(node.args[0]))
        return z3.And(Value.is_VRef(v), Value.a(v) >= 0, Value.a(v) < self.alloc)

    def sp_div(self, node):
        """SMT-LIB integer division (equals Python's // whenever the divisor is positive)."""
        return VInt(self.as_int(self.ev(node.args[0])) / self.as_int(self.ev(node.args[1])))

    def sp_mod(self, node):
        return VInt(self.as_int(self.ev(node.args[0])) % self.as_int(self.ev(node.args[1])))

    def sp_dict_key_at(self, node):
        """dict_key_at(d, j): the j-th key in the (abstract) iteration order of d."""
        d = self.val(self.ev(node.args[0]))
        j = self.as_int(self.ev(node.args[1]))
        return z3.Select(z3.Select(self.field('dict.keys'), Value.a(d)), j)

    def sp_yielded_concat(self, node):
        return VStr(self.yconcat)

    def sp_yielded_count(self, node):
        return VInt(self.ycount)

    def sp_inf(self, node):
        return VInf

    def sp_ascii_str(self, node):
        v = self.val(self.ev(node.args[0]))
        return z3.And(Value.is_VStr(v), z3.InRe(Value.s(v), z3.Star(z3.Range(chr(0), chr(127)))))

    def sp_re_fullmatch(self, node):
        """re_fullmatch(PATTERN_CONSTANT, s): s is in the language of the anchored pattern of the running module."""
        from . import regex
        pat = self.ev(node.args[0])
        if not isinstance(pat, Const) or not hasattr(pat.py, 'pattern'):
            raise OutOfSubset('re_fullmatch needs a compiled pattern constant')
        v = self.val(self.ev(node.args[1]))
        return z3.InRe(Value.s(v), regex.full(pat.py.pattern))

    def sp_memo_clean(self, node):
        """memo_clean("relpath::func"): the lru_cache table of func holds no entry computed under another table."""
        key = ast.literal_eval(node.args[0])
        return z3.Select(self.field('memo'), self.memo_addr(key)) == VInt(0)

    def sp_dict_eq(self, node):
        """dict_eq(a, b): same key set and same values (a heap dict; b heap dict or a constant dict)."""
        a = self.ev(node.args[0])
        b = self.ev(node.args[1])
        if isinstance(a, Const):
            if isinstance(b, Const):
                return z3.BoolVal(a.py == b.py)
            a, b = b, a
        a = self.val(a)
        aa = Value.a(a)
        has_a = z3.Select(self.field('dict.has'), aa)
        val_a = z3.Select(self.field('dict.val'), aa)
        k = z3.Const('k!deq%d' % self._qcount(), Value)
        if isinstance(b, Const):
            items = list(b.py.items())
            member = z3.Or([k == lift(x) for x, _ in items]) if items else z3.BoolVal(False)
            conj = [z3.ForAll([k], z3.Select(has_a, k) == member)]
            for x, y in items:
                conj.append(z3.Select(val_a, lift(x)) == self.const_val(y))
            conj.append(z3.Select(self.field('dict.n'), aa) == len(items))
            return z3.And(conj)
        b = self.val(b)
        bb = Value.a(b)
        has_b = z3.Select(self.field('dict.has'), bb)
        val_b = z3.Select(self.field('dict.val'), bb)
        return z3.And(z3.ForAll([k], z3.Select(has_a, k) == z3.Select(has_b, k)),
                      z3.ForAll([k], z3.Implies(z3.Select(has_a, k), z3.Select(val_a, k) == z3.Select(val_b, k))),
                      z3.Select(self.field('dict.n'), aa) == z3.Select(self.field('dict.n'), bb))

    def sp_same_dict_state(self, node):
        """same_dict_state(d): the dict object d has exactly the contents it had in the old state."""
        a = Value.a(self.val(self.ev(node.args[0])))
        conj = []
        for f in ('dict.has', 'dict.val', 'dict.n'):
            conj.append(z3.Select(self.field(f), a) == z3.Select(self.old.heap.get(f, self.field(f)), a))
        return z3.And(conj)

    def sp_raw(self, node):
        """raw("z3-python expression") escape hatch is deliberately not provided."""
        raise OutOfSubset('raw')

    # ------------------------------------------------------------------ modelled builtins
    def call_builtin(self, b, args, kwargs, node):
        name = b.name
        m = getattr(self, 'bi_' + name.replace('.', '_'), None)
        if m is None:
            raise OutOfSubset('builtin %s: %s' % (name, self.snippet(node)))
        return m(b, args, kwargs, node)

    def bi_len(self, b, args, kwargs, node):
        x = args[0]
        if isinstance(x, Const):
            return VInt(len(x.py))
        if isinstance(x, IterVal):
            raise PyExc('TypeError', 'len of iterator', implicit='type')
        x = self.val(x)
        t = static_tag(x) or self.tagcache.get(x.sexpr())
        if t is None and self.spec_mode:
            t = 'VRef'
        if t is None:
            t = self.tag(x)
        if t == 'VRef' and self.spec_mode:
            a = Value.a(x)
            c = self.cls_of(x)
            if z3.is_int_value(c) and c.as_long() in (1, 4):
                return VInt(self.lget(a, 'len'))
            if z3.is_int_value(c) and c.as_long() in (2, 3):
                return VInt(z3.Select(self.field('dict.n'), a))
            if not z3.is_int_value(c) or c.as_long() < 10:
                return VInt(z3.If(z3.Or(c == 2, c == 3), z3.Select(self.field('dict.n'), a),
                                  self.lget(a, 'len')))
        if t == 'VStr':
            return VInt(z3.Length(Value.s(x)))
        if t == 'VTup':
            items = tup_items_static(x)
            if items is not None:
                return VInt(len(items))
            return VInt(len(self.static_items(x, node)))
        if t == 'VRef':
            a = Value.a(x)
            c = self.cls_of(x)
            if z3.is_int_value(c) and c.as_long() >= 10:
                meths = [k for k in self.find_method('__len__')]
                for k in meths:
                    cname = k.split('::')[1].split('.')[0]
                    if self.class_id(cname) == c.as_long():
                        return self.call_func(FuncVal(k, self.eng.repo.funcs[k], x), [], {}, node)
            kind = self.ref_kind(x, ['list', 'deque', 'dict', 'set'] +
                                 [k.split('::')[1].split('.')[0] for k in self.find_method('__len__')])
            if kind in ('list', 'deque'):
                return VInt(self.list_len(x))
            if kind in ('dict', 'set'):
                return VInt(z3.Select(self.field('dict.n'), a))
            if kind is not None:
                k = [k for k in self.find_method('__len__') if k.split('::')[1].split('.')[0] == kind][0]
                return self.call_func(FuncVal(k, self.eng.repo.funcs[k], x), [], {}, node)
        raise PyExc('TypeError', 'len() of ' + t, implicit='type')

    def _minmax(self, args, node, is_min):
        if len(args) == 1:
            args = self.static_items(args[0], node)
        nums = [self.numeric(a, node) for a in args]
        if any(k == 'inf' for k, _ in nums):
            raise OutOfSubset('min/max with inf')
        if all(k == 'int' for k, _ in nums):
            r = nums[0][1]
            for _, x in nums[1:]:
                r = z3.If(x < r, x, r) if is_min else z3.If(x > r, x, r)
            return VInt(z3.simplify(r))
        # mixed int/float: Python returns the first minimal element with its own type
        vals = [self.val(a) for a in args]
        reals = [z3.ToReal(x) if k == 'int' else x for k, x in nums]
        r, rr = vals[0], reals[0]
        for v, x in zip(vals[1:], reals[1:]):
            c = (x < rr) if is_min else (x > rr)
            r, rr = z3.If(c, v, r), z3.If(c, x, rr)
        return r

    def bi_min(self, b, args, kwargs, node):
        return self._minmax(args, node, True)

    def bi_max(self, b, args, kwargs, node):
        return self._minmax(args, node, False)

    def bi_abs(self, b, args, kwargs, node):
        k, x = self.numeric(args[0], node)
        if k == 'int':
            return VInt(z3.If(x < 0, -x, x))
        raise OutOfSubset('abs of float')

    def bi_range(self, b, args, kwargs, node):
        xs = [self.as_int(a) for a in args]
        if len(xs) == 1:
            return RangeIter(z3.IntVal(0), xs[0])
        if len(xs) == 2:
            return RangeIter(xs[0], xs[1])
        lo, hi, st = [z3.simplify(x) for x in xs]
        if all(z3.is_int_value(x) for x in (lo, hi, st)):
            return StaticIter([VInt(i) for i in range(lo.as_long(), hi.as_long(), st.as_long())])
        raise OutOfSubset('range with symbolic step')

    def bi_enumerate(self, b, args, kwargs, node):
        start = self.as_int(args[1]) if len(args) > 1 else z3.IntVal(0)
        return EnumIter(self.as_iter(args[0], node), start)

    def bi_reversed(self, b, args, kwargs, node):
        it = self.as_iter(args[0], node)
        if isinstance(it, StaticIter):
            return StaticIter(list(reversed(it.items)))
        raise OutOfSubset('reversed of symbolic sequence')

    def bi_isinstance(self, b, args, kwargs, node):
        v = self.val(args[0])
        tn = node.args[1]
        names = [e.id for e in tn.elts] if isinstance(tn, ast.Tuple) else [tn.id]
        t = static_tag(v) or self.tag(v)
        res = False
        for n in names:
            if n == 'int':
                res = res or t in ('VInt', 'VBool')
            elif n == 'str':
                res = res or t == 'VStr'
            elif n == 'bool':
                res = res or t == 'VBool'
            elif n == 'float':
                res = res or t in ('VNum', 'VInf')
            elif n == 'tuple':
                res = res or t == 'VTup'
            elif n in ('list', 'dict', 'set'):
                if t == 'VRef':
                    return VBool(self.cls_of(v) == self.class_id(n))
            else:
                raise OutOfSubset('isinstance ' + n)
        return VBool(res)

    def bi_list(self, b, args, kwargs, node):
        if not args:
            return self.new_list([])
        it = self.as_iter(args[0], node)
        if isinstance(it, StaticIter):
            return self.new_list(list(it.items))
        if isinstance(it, ListIter):
            n = it.length(self)
            return self.new_list_sym(n, self.list_arr(it.ref))
        raise OutOfSubset('list() of ' + type(it).__name__)

    def bi_tuple(self, b, args, kwargs, node):
        if not args:
            return VTup([])
        it = self.as_iter(args[0], node)
        if isinstance(it, StaticIter):
            return VTup(list(it.items))
        raise OutOfSubset('tuple() of symbolic sequence')

    def bi_dict(self, b, args, kwargs, node):
        if not args:
            return self.new_dict()
        src = args[0]
        if isinstance(src, Const) and isinstance(src.py, dict):
            d = self.new_dict()
            for k, v in src.py.items():
                self.dict_set(d, lift(k), self.const_val(v), node)
            return d
        src = self.val(src)
        kind = self.ref_kind(src, ['dict'])
        if kind != 'dict':
            raise OutOfSubset('dict() of non-dict')
        a0 = Value.a(src)
        a = self.new_addr('dict')
        for f in ('dict.n', 'dict.has', 'dict.val', 'dict.keys'):
            self.heap[f] = z3.Store(self.field(f), a, z3.Select(self.field(f), a0))
        return VRef(a)

    def bi_set(self, b, args, kwargs, node):
        if not args:
            return self.new_dict(cls='set')
        raise OutOfSubset('set(iterable)')

    def bi_bool(self, b, args, kwargs, node):
        return VBool(self.truth(args[0]))

    def bi_float(self, b, args, kwargs, node):
        x = args[0]
        if is_val(x) and static_tag(x) == 'VStr':
            s = z3.simplify(Value.s(x))
            if z3.is_string_value(s) and s.as_string() == 'inf':
                return VInf
        k, v = self.numeric(x, node)
        if k == 'int':
            return VNum(z3.ToReal(v))
        return self.val(x)

    def bi_int(self, b, args, kwargs, node):
        x = self.val(args[0])
        t = static_tag(x) or self.tag(x)
        if t == 'VInt':
            return x
        if t == 'VBool':
            return VInt(z3.If(Value.b(x), 1, 0))
        if t == 'VNum':
            r = Value.r(x)
            # int() truncates toward zero
            return VInt(z3.If(r >= 0, z3.ToInt(r), -z3.ToInt(-r)))
        if t == 'VStr':
            return self.str_to_int(Value.s(x), node)
        raise PyExc('TypeError', 'int() of ' + t, implicit='type')

    GEN_EXC = {0: 'StopIteration', 1: 'DecoderError', 2: 'ValueError'}

    def bi_next(self, b, args, kwargs, node):
        it = self.val(args[0])
        t = static_tag(it) or self.tag(it)
        if t != 'VRef' or self.ref_kind(it, ['gen']) != 'gen':
            raise OutOfSubset('next() of non-generator')
        a = Value.a(it)
        pos = z3.Select(self.field('gen.pos'), a)
        n = z3.Select(self.field('gen.n'), a)
        if not self.branch(pos < n):
            exc = z3.Select(self.field('gen.exc'), a)
            if self.branch(exc == 0):
                raise PyExc('StopIteration', 'next(%s)' % self.snippet(node.args[0]))
            raise PyExc('DecoderError', 'generator raised at exhaustion in next(%s)' % self.snippet(node.args[0]))
        self.check_write(a, node)
        item = z3.simplify(z3.Select(z3.Select(self.field('gen.items'), a), pos))
        ety = self.iter_elem.get(z3.simplify(a).sexpr())
        if ety:
            self.assume(self.type_constraint(item, ety))
        self.heap['gen.pos'] = z3.Store(self.field('gen.pos'), a, pos + 1)
        return item

    def sp_iter_pos(self, node):
        return VInt(z3.Select(self.field('gen.pos'), Value.a(self.val(self.ev(node.args[0])))))

    def sp_iter_len(self, node):
        return VInt(z3.Select(self.field('gen.n'), Value.a(self.val(self.ev(node.args[0])))))

    def sp_iter_exc(self, node):
        return VInt(z3.Select(self.field('gen.exc'), Value.a(self.val(self.ev(node.args[0])))))

    def sp_iter_item(self, node):
        it = self.val(self.ev(node.args[0]))
        k = self.as_int(self.ev(node.args[1]))
        return z3.Select(z3.Select(self.field('gen.items'), Value.a(it)), k)

    def bi_print(self, b, args, kwargs, node):
        return VNone

    # list / dict / set methods ------------------------------------------------------------
    def bi_m_append(self, b, args, kwargs, node):
        self.list_append(b.self_val, self.val(args[0]), node)
        return VNone

    def bi_m_extend(self, b, args, kwargs, node):
        r = self.list_concat(b.self_val, self.val(args[0]) if not isinstance(args[0], Const) else args[0], node,
                             inplace=True)
        return VNone

    def bi_m_insert(self, b, args, kwargs, node):
        ref = b.self_val
        a = Value.a(ref)
        self.check_write(a, node)
        n = self.list_len(ref)
        arr = self.list_arr(ref)
        pos = self.as_int(args[0])
        # list.insert clamps the position into [0, n] (negative positions count from the end)
        p = z3.If(pos < 0, z3.If(pos + n < 0, z3.IntVal(0), pos + n), z3.If(pos > n, n, pos))
        v = self.val(args[1])
        i = z3.Int('i!ins')
        new = self.fresh('ins', ArrIV)
        # defining axiom of the new item vector (kept out of the feasibility solver, present in every obligation)
        self.assume(z3.ForAll([i], z3.Select(new, i) == z3.If(i < p, z3.Select(arr, i),
                                                              z3.If(i == p, v, z3.Select(arr, i - 1))),
                              patterns=[z3.Select(new, i)]))
        self.assume(z3.Select(new, p) == v)
        self.lset(a, 'items', new)
        self.lset(a, 'len', n + 1)
        return VNone

    def bi_m_setdefault(self, b, args, kwargs, node):
        d = b.self_val
        a = Value.a(d)
        k = self.val(args[0])
        has = z3.Select(z3.Select(self.field('dict.has'), a), k)
        if self.branch(has):
            return z3.simplify(z3.Select(z3.Select(self.field('dict.val'), a), k))
        v = self.val(args[1]) if len(args) > 1 else VNone
        self.check_write(a, node)
        self.dict_set(d, k, v, node)
        return v

    def bi_m_get(self, b, args, kwargs, node):
        d = b.self_val
        a = Value.a(d)
        k = self.val(args[0])
        dflt = self.val(args[1]) if len(args) > 1 else VNone
        has = z3.Select(z3.Select(self.field('dict.has'), a), k)
        return z3.If(has, z3.Select(z3.Select(self.field('dict.val'), a), k), dflt)

    def bi_m_items(self, b, args, kwargs, node):
        st = self.static_dicts.get(z3.simplify(Value.a(b.self_val)).sexpr())
        if st is not None:
            return StaticIter([VTup([k, v]) for k, v in st])
        return DictIter(b.self_val, 'items')

    def bi_m_update(self, b, args, kwargs, node):
        tgt = b.self_val
        kind = self.ref_kind(tgt, ['set', 'dict'])
        src = args[0]
        it = self.as_iter(src, node)
        if kind != 'set' or not isinstance(it, StaticIter):
            raise OutOfSubset('update() other than set.update(static sequence)')
        self.check_write(Value.a(tgt), node)
        for x in it.items:
            self.dict_set(tgt, self.val(x), VNone, node)
        return VNone

    def bi_m_keys(self, b, args, kwargs, node):
        return DictIter(b.self_val, 'keys')

    def bi_m_values(self, b, args, kwargs, node):
        return DictIter(b.self_val, 'values')

    def bi_m_add(self, b, args, kwargs, node):
        self.check_write(Value.a(b.self_val), node)
        self.dict_set(b.self_val, self.val(args[0]), VNone, node)
        return VNone

    def bi_m_index(self, b, args, kwargs, node):
        ref = b.self_val
        x = self.val(args[0])
        n = self.list_len(ref)
        arr = self.list_arr(ref)
        j = self.fresh('idx', I)
        q = z3.Int('q!i')
        exists = self.ref_contains(ref, x, node)
        if not self.branch(exists):
            raise PyExc('ValueError', self.snippet(node), implicit='list.index')
        self.assume(z3.And(j >= 0, j < n, self.py_eq(z3.Select(arr, j), x)))
        self.assume(z3.ForAll([q], z3.Implies(z3.And(q >= 0, q < j), z3.Not(self.py_eq(z3.Select(arr, q), x)))))
        return VInt(j)

    def bi_cache_clear(self, b, args, kwargs, node):
        key = b.self_val.key
        memo = self.field('memo')
        self.heap['memo'] = z3.Store(memo, self.memo_addr(key), VInt(0))
        return VNone

    def memo_addr(self, key):
        names = sorted(self.eng.repo.funcs)
        return z3.IntVal(names.index(key))

    PARTIAL_FIELDS = ('element', 'is_aromatic', 'isotope', 'chirality', 'h_count', 'charge')

    def make_partial(self, args, kwargs, node):
        """functools.partial(Atom, **kw): a heap object of class `partial` holding the bound keywords (the only use
        of partial in the library; any other target class is out of subset)."""
        if not (args and isinstance(args[0], ClassVal) and args[0].name == 'Atom' and len(args) == 1):
            raise OutOfSubset('functools.partial of something else than Atom(**kwargs)')
        a = self.new_addr('partial')
        for f in self.PARTIAL_FIELDS:
            has = f in kwargs
            self.heap['attr:pkhas_' + f] = z3.Store(self.field('attr:pkhas_' + f), a, VBool(has))
            self.heap['attr:pk_' + f] = z3.Store(self.field('attr:pk_' + f), a,
                                                 self.val(kwargs[f]) if has else VNone)
        for k in kwargs:
            if k not in self.PARTIAL_FIELDS:
                raise PyExc('TypeError', 'unexpected keyword ' + k, implicit='type')
        return VRef(a)

    def call_partial(self, p, args, kwargs, node):
        """Calling a partial object: Atom(**bound keywords) - a FRESH atom per call."""
        p = self.val(p)
        t = static_tag(p) or self.tagcache.get(p.sexpr()) or self.tag(p)
        if t != 'VRef' or self.ref_kind(p, ['partial']) != 'partial':
            raise PyExc('TypeError', 'object is not callable: ' + self.snippet(node), implicit='type')
        if args or kwargs:
            raise OutOfSubset('partial called with arguments')
        pa = Value.a(p)
        defaults = {'isotope': VNone, 'chirality': VNone, 'h_count': VNone, 'charge': VInt(0)}
        kw = {}
        for f in self.PARTIAL_FIELDS:
            has = Value.b(z3.Select(self.field('attr:pkhas_' + f), pa))
            val = z3.Select(self.field('attr:pk_' + f), pa)
            if f in defaults:
                kw[f] = z3.simplify(z3.If(has, val, defaults[f]))
            else:
                if not self.branch(has):
                    raise PyExc('TypeError', 'missing argument ' + f, implicit='type')
                kw[f] = z3.simplify(val)
        return self.construct(ClassVal('Atom'), [], kw, node)

    def bi_match_groups(self, b, args, kwargs, node):
        return b.self_val.groups

    def regex_match(self, pattern, s, node):
        """pattern.match(s) for a fully anchored pattern: None, or a match whose groups are SOME decomposition of s
        into the pattern's top-level pieces (a sound over-approximation of the greedy choice CPython makes)."""
        from . import regex
        try:
            items, start, end = regex.parse(pattern)
        except regex.RegexError as e:
            raise OutOfSubset('regex: %s' % e)
        if not (start and end):
            raise OutOfSubset('regex not anchored at both ends')
        full = regex._concat([r for _, r in items])
        if not self.branch(z3.InRe(s, full)):
            return VNone
        pieces, groups = [], []
        for is_group, r in items:
            g = self.fresh('grp', S)
            self.assume(z3.InRe(g, r))
            pieces.append(g)
            if is_group:
                groups.append(VStr(g))
        self.assume(s == (z3.Concat(pieces) if len(pieces) > 1 else pieces[0]))
        return MatchVal(VTup(groups))

    def str_to_int(self, s, node):
        """int(s) for a str: ValueError unless s is a non-empty ASCII digit string (callers are restricted to ASCII
        input of bounded length by their contracts: Unicode digits and the 4300-digit limit are known findings)."""
        ok = z3.InRe(s, z3.Plus(z3.Range('0', '9')))
        if not self.branch(ok):
            raise PyExc('ValueError', 'int() of non-numeral: ' + self.snippet(node), implicit='int')
        n = z3.StrToInt(s)
        self.assume(n >= 0)
        return VInt(n)

    def call_const(self, fv, args, kwargs, node):
        import functools
        import re as _re
        py = fv.py
        if py is functools.partial:
            return self.make_partial(args, kwargs, node)
        if isinstance(getattr(py, '__self__', None), _re.Pattern) and getattr(py, '__name__', '') == 'match':
            sv = self.val(args[0])
            t = static_tag(sv) or self.tagcache.get(sv.sexpr()) or self.tag(sv)
            if t != 'VStr':
                raise PyExc('TypeError', 'match on non-str', implicit='type')
            return self.regex_match(py.__self__.pattern, Value.s(sv), node)
        import itertools
        if py is itertools.product:
            if len(args) != 2 or kwargs:
                raise OutOfSubset('itertools.product with other than two iterables')
            outer = self.as_iter(args[0], node)
            inner = self.as_iter(args[1], node)
            if not isinstance(inner, StaticIter):
                raise OutOfSubset('itertools.product: second iterable must be static')
            if isinstance(outer, StaticIter):
                return StaticIter([VTup([a, b]) for a in outer.items for b in inner.items])
            return ProductIter(outer, inner.items)
        if isinstance(py, functools.partial):
            raise OutOfSubset('call of partial')
        owner = getattr(py, '__self__', None)
        mname = getattr(py, '__name__', None)
        if isinstance(owner, dict) and mname == 'get':
            k = self.val(args[0])
            r = self.val(args[1]) if len(args) > 1 else VNone
            for key in reversed(list(owner)):
                r = z3.If(self.py_eq(k, lift(key)), self.const_val(owner[key]), r)
            return z3.simplify(r)
        if isinstance(owner, dict) and mname in ('items', 'keys', 'values'):
            if mname == 'items':
                return StaticIter([VTup([lift(k), self.const_val(v)]) for k, v in owner.items()])
            if mname == 'keys':
                return StaticIter([lift(k) for k in owner])
            return StaticIter([self.const_val(v) for v in owner.values()])
        raise OutOfSubset('call of constant %r' % (fv,))

    # str methods -----------------------------------------------------------------------------
    def bi_str_find(self, b, args, kwargs, node):
        s = Value.s(b.self_val)
        sub = Value.s(self.val(args[0]))
        start = self.as_int(args[1]) if len(args) > 1 else z3.IntVal(0)
        n = z3.Length(s)
        st = z3.If(start < 0, z3.If(start + n < 0, z3.IntVal(0), start + n), start)
        return VInt(z3.If(st > n, z3.IntVal(-1), z3.IndexOf(s, sub, st)))

    def _str_pred(self, name, b):
        f = z3.Function('str_' + name, S, B)
        x = Value.s(b.self_val)
        if name != 'isascii':
            # trusted: ''.isdigit() / ''.isnumeric() / ''.isalpha() / ''.islower() are False in CPython
            self.assume(z3.Implies(f(x), z3.Length(x) > 0))
        ascii_ = z3.InRe(x, z3.Star(z3.Range(chr(0), chr(127))))
        if name in ('isdigit', 'isnumeric'):
            # trusted: on ASCII strings isdigit()/isnumeric() hold exactly for non-empty strings over 0-9
            self.assume(z3.Implies(ascii_, f(x) == z3.InRe(x, z3.Plus(z3.Range('0', '9')))))
        if name == 'isalpha':
            self.assume(z3.Implies(ascii_, f(x) == z3.InRe(x, z3.Plus(z3.Union(z3.Range('a', 'z'), z3.Range('A', 'Z'))))))
        if name == 'isascii':
            self.assume(f(x) == ascii_)
        return VBool(f(x))

    def bi_str_capitalize(self, b, args, kwargs, node):
        """str.capitalize(): uninterpreted, length preserving on ASCII (trusted); nothing else is assumed about it."""
        f = z3.Function('str_capitalize', S, S)
        x = Value.s(b.self_val)
        r = f(x)
        self.assume(z3.Implies(z3.InRe(x, z3.Star(z3.Range(chr(0), chr(127)))), z3.Length(r) == z3.Length(x)))
        return VStr(r)

    def bi_str_isnumeric(self, b, args, kwargs, node):
        return self._str_pred('isnumeric', b)

    def bi_str_isdigit(self, b, args, kwargs, node):
        return self._str_pred('isdigit', b)

    def bi_str_isascii(self, b, args, kwargs, node):
        return self._str_pred('isascii', b)

    def bi_str_isalpha(self, b, args, kwargs, node):
        return self._str_pred('isalpha', b)

    def bi_str_islower(self, b, args, kwargs, node):
        return self._str_pred('islower', b)

    def bi_str_join(self, b, args, kwargs, node):
        sep = Value.s(b.self_val)
        src = args[0]
        items = self.static_items(src, node, maxlen=64) if not isinstance(src, IterVal) else \
            (src.items if isinstance(src, StaticIter) else None)
        if items is None:
            raise OutOfSubset('join over symbolic sequence')
        parts = []
        for k, it in enumerate(items):
            it = self.val(it)
            t = static_tag(it) or self.tagcache.get(it.sexpr()) or self.tag(it)
            if t != 'VStr':
                raise PyExc('TypeError', 'join of non-str: ' + self.snippet(node), implicit='type')
            if k:
                parts.append(sep)
            parts.append(Value.s(it))
        if not parts:
            return VStr('')
        return VStr(z3.simplify(z3.Concat(parts) if len(parts) > 1 else parts[0]))

    def bi_str_count(self, b, args, kwargs, node):
        f = z3.Function('str_count', S, S, I)
        hay, needle = Value.s(b.self_val), z3.simplify(Value.s(self.val(args[0])))
        r = f(hay, needle)
        self.assume(r >= 0)
        if z3.is_string_value(needle) and len(needle.as_string()) == 1 and not (args[1:] or kwargs):
            # trusted spec of str.count for a one-character needle: at most one occurrence per position, and none
            # exactly when str.find reports none (DESIGN 2.4); the number itself stays uninterpreted
            self.assume(r <= z3.Length(hay))
            self.assume((r == 0) == (z3.IndexOf(hay, needle, z3.IntVal(0)) == -1))
        return VInt(r)

    def bi_str_startswith(self, b, args, kwargs, node):
        return VBool(z3.PrefixOf(Value.s(self.val(args[0])), Value.s(b.self_val)))

    def bi_str_endswith(self, b, args, kwargs, node):
        return VBool(z3.SuffixOf(Value.s(self.val(args[0])), Value.s(b.self_val)))

    def bi_str(self, b, args, kwargs, node):
        x = self.val(args[0])
        t = static_tag(x) or self.tag(x)
        if t == 'VStr':
            return x
        if t == 'VInt':
            return VStr(self.int_to_str(Value.i(x)))
        if t == 'VNone':
            return VStr('None')
        if t == 'VBool':
            return VStr(z3.If(Value.b(x), z3.StringVal('True'), z3.StringVal('False')))
        return VStr(self.fresh('str', S))

    def int_to_str(self, n):
        """str(n): z3's int.to.str for n >= 0, '-' + int.to.str(-n) otherwise (exact for Python ints)."""
        return z3.If(n >= 0, z3.IntToStr(n), z3.Concat(z3.StringVal('-'), z3.IntToStr(-n)))

    def bi_str_format(self, b, args, kwargs, node):
        fmt = z3.simplify(Value.s(b.self_val))
        if not z3.is_string_value(fmt):
            raise OutOfSubset('format on symbolic string')
        f = fmt.as_string()
        import re
        parts = re.split(r'(\{[^}]*\})', f)
        out = []
        ai = 0
        for p in parts:
            if p.startswith('{') and p.endswith('}'):
                spec = p[1:-1]
                if ai >= len(args):
                    raise PyExc('IndexError', 'format arity', implicit='format')
                x = self.val(args[ai])
                ai += 1
                t = static_tag(x) or self.tag(x)
                if spec in ('', ':'):
                    if t == 'VStr':
                        out.append(Value.s(x))
                    elif t == 'VInt':
                        out.append(self.int_to_str(Value.i(x)))
                    else:
                        out.append(self.fresh('fmt', S))
                elif spec == ':+':
                    if t != 'VInt':
                        raise OutOfSubset('{:+} of non-int')
                    n = Value.i(x)
                    out.append(z3.If(n >= 0, z3.Concat(z3.StringVal('+'), z3.IntToStr(n)),
                                     z3.Concat(z3.StringVal('-'), z3.IntToStr(-n))))
                else:
                    raise OutOfSubset('format spec ' + spec)
            elif p:
                out.append(z3.StringVal(p.replace('{{', '{').replace('}}', '}')))
        if not out:
            return VStr('')
        return VStr(z3.simplify(z3.Concat(out) if len(out) > 1 else out[0]))


class _Old:
    def __init__(self, heap, alloc, env):
        self.heap, self.alloc, self.env = heap, alloc, env


def _is_recursive(c):
    for n in ast.walk(c.node):
        if isinstance(n, ast.Call) and isinstance(n.func, ast.Name) and n.func.id == c.name:
            return True
    return False
