"""Discharge obligations: one SMT query per (clause, path), process pool, z3 API first, cvc5/z3 CLI fallback."""
import os
import subprocess
import tempfile
import time
import multiprocessing as mp

import z3


def _has_strings(smt):
    return 'String' in smt or 'str.' in smt


def _run_z3(smt, timeout_ms, witness_names):
    s = z3.Solver()
    s.set('timeout', timeout_ms)
    s.set('random_seed', 7)
    t0 = time.time()
    try:
        s.from_string(smt)
        r = s.check()
    except z3.Z3Exception as e:
        return 'error', time.time() - t0, str(e)
    dt = time.time() - t0
    if r == z3.unsat:
        return 'unsat', dt, None
    if r == z3.sat:
        m = s.model()
        out = {}
        for d in m.decls():
            if d.name() in witness_names:
                out[d.name()] = str(m[d])
        return 'sat', dt, out
    return 'unknown', dt, s.reason_unknown()


def _run_cli(cmd, smt, timeout_s):
    t0 = time.time()
    with tempfile.NamedTemporaryFile('w', suffix='.smt2', delete=False) as f:
        f.write(smt)
        path = f.name
    try:
        p = subprocess.run(cmd + [path], capture_output=True, text=True, timeout=timeout_s)
        out = p.stdout.strip().splitlines()
        res = out[0].strip() if out else 'unknown'
        if res not in ('sat', 'unsat', 'unknown'):
            res = 'unknown'
        return res, time.time() - t0, (p.stdout + p.stderr)[-2000:]
    except subprocess.TimeoutExpired:
        return 'unknown', time.time() - t0, 'timeout'
    finally:
        os.unlink(path)


def _to_cvc5(smt):
    lines = ['(set-logic ALL)']
    for l in smt.splitlines():
        if l.startswith('(set-info') or l.startswith('; '):
            continue
        lines.append(l)
    return '\n'.join(lines)


_JOBS = []
_AXIOMS = ()


def _run_z3_direct(ob, timeout_ms, axioms):
    s = z3.Solver()
    s.set('timeout', timeout_ms)
    s.set('random_seed', 7)
    t0 = time.time()
    try:
        for a in axioms:
            s.add(a)
        for p in ob.pc:
            s.add(p)
        s.add(z3.Not(ob.goal))
        r = s.check()
    except z3.Z3Exception as e:
        return 'error', time.time() - t0, str(e)
    dt = time.time() - t0
    if r == z3.unsat:
        return 'unsat', dt, None
    if r == z3.sat:
        m = s.model()
        out = {}
        for name, term in ob.witnesses:
            try:
                out[name] = str(m.eval(term, model_completion=True))
            except z3.Z3Exception:
                pass
        return 'sat', dt, out
    return 'unknown', dt, s.reason_unknown()


def solve_one(job):
    idx, timeout_ms, use_cvc5 = job
    axioms = _AXIOMS
    ob = _JOBS[idx]
    res, dt, info = _run_z3_direct(ob, timeout_ms, axioms)
    solver = 'z3'
    smt = ''
    if res in ('unknown', 'error') and use_cvc5:
        try:
            smt = ob.smt2(axioms)
        except Exception:
            smt = 'lambda'
    if res in ('unknown', 'error') and use_cvc5 and 'lambda' not in smt and 'define-fun-rec' not in smt:
        r2, dt2, info2 = _run_cli(['/usr/bin/cvc5', '--strings-exp', '--tlimit=%d' % timeout_ms],
                                  _to_cvc5(smt), timeout_ms / 1000 + 5)
        if r2 in ('sat', 'unsat'):
            return idx, r2, dt + dt2, info2 if r2 == 'sat' else None, 'cvc5'
    return idx, res, dt, info, solver


def discharge(obligations, timeout_ms=20000, procs=None, use_cvc5=True, axioms=()):
    """Fill in status/time/model of every obligation.  status: proved | refuted | unknown | error"""
    jobs = []
    for i, ob in enumerate(obligations):
        g = ob.goal
        if z3.is_true(g):
            ob.status, ob.solver, ob.time = 'proved', 'simplifier', 0.0
            continue
        jobs.append((i, timeout_ms, use_cvc5))
    if not jobs:
        return
    global _JOBS, _AXIOMS
    _JOBS = obligations
    _AXIOMS = tuple(axioms)
    procs = procs or min(16, max(1, len(jobs)))
    if procs == 1 or len(jobs) == 1:
        results = [solve_one(j) for j in jobs]
    else:
        ctx = mp.get_context('fork')
        with ctx.Pool(procs) as pool:
            results = pool.map(solve_one, jobs, chunksize=1)
    for idx, res, dt, info, solver in results:
        ob = obligations[idx]
        ob.time = dt
        ob.solver = solver
        if res == 'unsat':
            ob.status = 'proved'
        elif res == 'sat':
            ob.status = 'refuted'
            ob.model = info
        elif res == 'error':
            ob.status = 'error'
            ob.model = info
        else:
            ob.status = 'unknown'
            ob.model = info
