"""Discharge obligations: one SMT query per (clause, path), process pool; z3 through the API (objects shared with
the forked workers, no SMT-LIB round trip), cvc5 CLI as fallback for string queries z3 leaves open."""
import os
import subprocess
import tempfile
import time
import multiprocessing as mp

import z3


def _run_cli(cmd, smt, timeout_s):
    t0 = time.time()
    with tempfile.NamedTemporaryFile('w', suffix='.smt2', delete=False) as f:
        f.write(smt)
        path = f.name
    try:
        p = subprocess.run(cmd + [path], capture_output=True, text=True, timeout=timeout_s)
        out = p.stdout.strip().splitlines()
        res = out[0].strip() if out else 'unknown'
        if res not in ('sat', 'unsat', 'unknown'):
            res = 'unknown'
        return res, time.time() - t0, (p.stdout + p.stderr)[-2000:]
    except subprocess.TimeoutExpired:
        return 'unknown', time.time() - t0, 'timeout'
    finally:
        os.unlink(path)


def _to_cvc5(smt):
    lines = ['(set-logic ALL)']
    for l in smt.splitlines():
        if l.startswith('(set-info') or l.startswith('; '):
            continue
        lines.append(l)
    return '\n'.join(lines)


_JOBS = []
_AXIOMS = ()


def _consts(e):
    """names of the uninterpreted constants (heap versions, variables) occurring in a term"""
    out, seen, todo = set(), set(), [e]
    while todo:
        t = todo.pop()
        if t.get_id() in seen:
            continue
        seen.add(t.get_id())
        if z3.is_quantifier(t):
            todo.append(t.body())
        elif z3.is_app(t):
            if t.num_args() == 0 and t.decl().kind() == z3.Z3_OP_UNINTERPRETED:
                out.add(t.decl().name())
            else:
                todo.extend(t.children())
    return out


def _has_q(e):
    sx = e.sexpr()
    return 'forall' in sx or 'exists' in sx


def _run_z3_direct(ob, timeout_ms, axioms):
    t0 = time.time()
    pc = list(ob.pc)
    quant = [p for p in pc if _has_q(p)]
    qf = [p for p in pc if not _has_q(p)]
    has_q = bool(quant) or _has_q(ob.goal)
    try:
        r = z3.unknown
        s = None
        # A proof from a SUBSET of the hypotheses is a proof: cheap subsets first, the full path condition last.
        #  0. quantifier-free facts only              1. plus the quantified facts sharing a heap version / variable
        #  with the goal (E-matching only)            2. everything, E-matching only      3. everything, z3 defaults
        plans = []
        if has_q:
            gc = _consts(ob.goal)
            rel = [p for p in quant if _consts(p) & gc]
            plans.append((qf, False, max(1500, timeout_ms // 6), False))
            if len(rel) < len(quant):
                plans.append((qf + rel, False, max(2000, timeout_ms // 4), False))
            plans.append((pc, False, max(2000, timeout_ms // 3), False))
        plans.append((pc, True, timeout_ms, True))
        for facts, mbqi, budget, full in plans:
            s = z3.Solver()
            s.set('timeout', int(budget))
            s.set('random_seed', 7)
            if not mbqi:
                s.set('auto_config', False)
                s.set('smt.mbqi', False)
            for a in axioms:
                s.add(a)
            for p in facts:
                s.add(p)
            s.add(z3.Not(ob.goal))
            r = s.check()
            if r == z3.unsat:
                break
            if r == z3.sat and full:
                break
            if r == z3.sat:
                r = z3.unknown        # a model of a subset of the hypotheses says nothing
    except z3.Z3Exception as e:
        return 'error', time.time() - t0, str(e)
    dt = time.time() - t0
    if r == z3.unsat:
        return 'unsat', dt, None
    if r == z3.sat:
        m = s.model()
        out = {}
        for name, term in ob.witnesses:
            try:
                out[name] = str(m.eval(term, model_completion=True))
            except z3.Z3Exception:
                pass
        return 'sat', dt, out
    return 'unknown', dt, s.reason_unknown() if s is not None else ''


def solve_one(job):
    idx, timeout_ms, use_cvc5 = job
    axioms = _AXIOMS
    ob = _JOBS[idx]
    z3_budget = timeout_ms
    try:
        stringy = 'str.' in ob.goal.sexpr() or any('str.' in p.sexpr() for p in ob.pc[-40:])
    except Exception:
        stringy = False
    smt = None
    if stringy and use_cvc5:
        # word equations / regex membership: a short z3 attempt (most are immediate), then cvc5 (it decides what z3
        # leaves open), then z3 again as the fallback
        res, dt, info = _run_z3_direct(ob, 2500, axioms)
        if res in ('unsat', 'sat'):
            return idx, res, dt, info, 'z3'
        try:
            smt = ob.smt2(axioms)
        except Exception:
            smt = None
        if smt and 'lambda' not in smt and 'define-fun-rec' not in smt:
            r2, dt2, info2 = _run_cli(['/usr/bin/cvc5', '--strings-exp', '--tlimit=%d' % (2 * timeout_ms)],
                                      _to_cvc5(smt), 2 * timeout_ms / 1000 + 5)
            if r2 == 'unsat':
                return idx, r2, dt2, None, 'cvc5'
        z3_budget = min(timeout_ms, 8000)
    res, dt, info = _run_z3_direct(ob, z3_budget, axioms)
    solver = 'z3'
    if res in ('unknown', 'error') and use_cvc5 and not stringy:
        try:
            smt = ob.smt2(axioms)
        except Exception:
            smt = 'lambda'
        if ('String' in smt or 'str.' in smt) and 'lambda' not in smt and 'define-fun-rec' not in smt:
            r2, dt2, info2 = _run_cli(['/usr/bin/cvc5', '--strings-exp', '--tlimit=%d' % timeout_ms],
                                      _to_cvc5(smt), timeout_ms / 1000 + 5)
            if r2 in ('sat', 'unsat'):
                return idx, r2, dt + dt2, info2 if r2 == 'sat' else None, 'cvc5'
    return idx, res, dt, info, solver


def discharge(obligations, timeout_ms=20000, procs=None, use_cvc5=True, axioms=()):
    """Fill in status/time/model of every obligation.  status: proved | refuted | unknown | error"""
    jobs = []
    for i, ob in enumerate(obligations):
        g = ob.goal
        if z3.is_true(g):
            ob.status, ob.solver, ob.time = 'proved', 'simplifier', 0.0
            continue
        jobs.append((i, getattr(ob, 'timeout_ms', None) or timeout_ms, use_cvc5))
    if not jobs:
        return
    global _JOBS, _AXIOMS
    _JOBS = obligations
    _AXIOMS = tuple(axioms)
    procs = procs or min(16, max(1, len(jobs)))
    if procs == 1 or len(jobs) == 1:
        results = [solve_one(j) for j in jobs]
    else:
        ctx = mp.get_context('fork')
        with ctx.Pool(procs) as pool:
            results = pool.map(solve_one, jobs, chunksize=1)
    for idx, res, dt, info, solver in results:
        ob = obligations[idx]
        ob.time = dt
        ob.solver = solver
        if res == 'unsat':
            ob.status = 'proved'
        elif res == 'sat':
            ob.status = 'refuted'
            ob.model = info
        elif res == 'error':
            ob.status = 'error'
            ob.model = info
        else:
            ob.status = 'unknown'
            ob.model = info
