"""Symbolic executor over the ast of the real functions; emits verification conditions (obligations).

One path per run; forks are explored by re-execution with a decision prefix (so the interpreter is a plain
recursive evaluator).  See DESIGN.md section 2.
"""
import ast
import hashlib
import z3

from .sorts import *
from . import sorts
from .source import Repo, find_loops, loop_header, Contract, SourceError


class OutOfSubset(Exception):
    pass


class PathEnd(Exception):
    """The current path ends here (infeasible, or cut after a loop-body check)."""


class PyExc(Exception):
    """An exception of the analysed program."""

    def __init__(self, cls, where=None, implicit=None):
        self.cls = cls
        self.where = where
        self.implicit = implicit   # kind of implicit raise (index, key, assert, ...), None for explicit `raise`


class ReturnSig(Exception):
    def __init__(self, v):
        self.v = v


class BreakSig(Exception):
    pass


class ContinueSig(Exception):
    pass


EXC_PARENTS = {
    'SMILESParserError': 'ValueError', 'ValueError': 'Exception', 'KeyError': 'LookupError',
    'IndexError': 'LookupError', 'LookupError': 'Exception', 'StopIteration': 'Exception',
    'AssertionError': 'Exception', 'TypeError': 'Exception', 'DecoderError': 'Exception',
    'EncoderError': 'Exception', 'ZeroDivisionError': 'ArithmeticError', 'ArithmeticError': 'Exception',
    'AttributeError': 'Exception', 'RecursionError': 'RuntimeError', 'RuntimeError': 'Exception',
    'Exception': 'BaseException', 'UnicodeError': 'ValueError',
}


def exc_isa(cls, parent):
    while cls is not None:
        if cls == parent:
            return True
        cls = EXC_PARENTS.get(cls)
    return False


class Const:
    """An immutable module-level Python constant of the running library (dict/set/tuple/regex/function...)."""

    def __init__(self, py, name=None):
        self.py = py
        self.name = name

    def __repr__(self):
        return 'Const(%s)' % (self.name or type(self.py).__name__)


class FuncVal:
    """A reference to a repository function (or bound method) usable in calls."""

    def __init__(self, key, node, self_val=None):
        self.key = key
        self.node = node
        self.self_val = self_val


class Builtin:
    def __init__(self, name, self_val=None):
        self.name = name
        self.self_val = self_val


class LambdaVal:
    def __init__(self, node, env):
        self.node = node
        self.env = env


class MatchVal:
    """Result of a successful regex match: the tuple of capture-group strings (as a boxed tuple value)."""

    def __init__(self, groups):
        self.groups = groups


class ClassVal:
    def __init__(self, name):
        self.name = name


class Obligation:
    def __init__(self, oid, kind, pc, goal, where, func, props, witnesses, note=''):
        self.oid = oid            # clause id, stable: 'module.function:tag'
        self.kind = kind
        self.pc = pc
        self.goal = goal
        self.where = where
        self.func = func
        self.props = props
        self.witnesses = witnesses
        self.note = note
        self.status = None
        self.time = 0.0
        self.model = None
        self.solver = None

    def smt2(self, extra_axioms=()):
        s = z3.Solver()
        for a in extra_axioms:
            s.add(a)
        for p in self.pc:
            s.add(p)
        s.add(z3.Not(self.goal))
        return s.to_smt2()


class Chooser:
    def __init__(self, prefix):
        self.prefix = list(prefix)
        self.trace = []   # (choice, n)

    def choose(self, n):
        i = len(self.trace)
        c = self.prefix[i] if i < len(self.prefix) else 0
        self.trace.append((c, n))
        return c

    @property
    def replaying(self):
        return len(self.trace) < len(self.prefix)


class Frame:
    def __init__(self, fn, rel, env, contract=None):
        self.fn = fn
        self.rel = rel
        self.env = env
        self.contract = contract


_fresh_counter = [0]


class Engine:
    """Holds the repo, the contracts and drives verification of one function at a time."""

    def __init__(self, repo=None, contracts=(), specs=None, max_paths=4000, inline_depth=4):
        self.repo = repo or Repo()
        self.contracts = {}       # target key -> Contract
        self.lemmas = {}
        self.specs = specs or {}
        self.consts = {}
        for c in contracts:
            if c.kind == 'lemma':
                self.lemmas[c.name] = c
            else:
                self.contracts[c.target] = c
        self.max_paths = max_paths
        self.inline_depth = inline_depth
        self.feas_cache = {}
        self.field_types = {}     # attr name -> type string (heap typing assumption)
        self.globals_decl = {}    # 'rel::name' -> type string, for mutable module globals modelled on the heap
        self.stats = {'paths': 0, 'feas_checks': 0}
        self.rec_axioms = []
        self.probes = []          # vacuity probes (goal False under the assumptions in force; must not be provable)

    # ------------------------------------------------------------------ driving
    def verify(self, key):
        """Verify the function `key` against its contract.  Returns list of obligations."""
        contract = self.contracts[key] if key in self.contracts else self.lemmas[key]
        obligations = []
        stack = [[]]
        npaths = 0
        while stack:
            prefix = stack.pop()
            ch = Chooser(prefix)
            run = Run(self, ch, obligations)
            run.verify_function(contract)
            npaths += 1
            if npaths > self.max_paths:
                raise OutOfSubset('path explosion in ' + key)
            for i in range(len(prefix), len(ch.trace)):
                c, n = ch.trace[i]
                base = [t[0] for t in ch.trace[:i]]
                for alt in range(c + 1, n):
                    stack.append(base + [alt])
        self.stats['paths'] += npaths
        return obligations


from .run import Run   # noqa: E402
