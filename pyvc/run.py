"""One symbolic path through a function: state, obligations, statements."""
import ast
import hashlib
import z3

from .sorts import *
from .source import find_loops, loop_header
from .engine import (OutOfSubset, PathEnd, PyExc, ReturnSig, BreakSig, ContinueSig, Const, FuncVal, Builtin,
                     LambdaVal, ClassVal, Obligation, Frame, exc_isa)
from .ops import OpsMixin, liftable
from .calls import CallsMixin

CLS = {'list': 1, 'dict': 2, 'set': 3, 'deque': 4, 'gen': 5, 'partial': 6}
CONTAINER_CLS = (1, 2, 3, 4)


class Snapshot:
    def __init__(self, run):
        self.heap = dict(run.heap)
        self.alloc = run.alloc
        self.env = dict(run.frames[-1].env) if run.frames else {}


class Run(OpsMixin, CallsMixin):
    def __init__(self, eng, ch, obligations):
        self.eng = eng
        self.ch = ch
        self.obligations = obligations
        self.pc = []
        self.solver = z3.Solver()
        self.solver.set('timeout', 600)
        self.pc_hash = hashlib.md5()
        self.heap = {}
        self.alloc = None
        self.frames = []
        self.counter = 0
        self.spec_mode = 0
        self.old = None           # Snapshot for old()
        self.contract = None
        self.entry = None         # Snapshot at function entry
        self.mods = []            # address terms the function may modify
        self.tagcache = {}
        self.depth = 0
        self.witnesses = []
        self.classes = {}         # class name -> id
        self.bound = {}           # spec-mode bound variables
        self.iter_elem = {}
        self.gen_yields = {}       # address sexpr -> declared element type of an iterator
        self.dict_key_type = {}   # address sexpr -> declared key type of a dict
        self.list_elem_type = {}  # address sexpr -> declared element type of a list
        self.tagsets = {}         # value sexpr -> tags allowed by its declared type
        self.inst_done = {}
        self.pc_seen = set()
        self.region = {}          # address sexpr -> private list region (local, non-escaping lists)
        self.local_lists = set()
        self.alloc_region = None
        self.static_dicts = {}    # address sexpr -> items of a dict display (iteration order = written order)
        self.ycount = z3.IntVal(0)        # ghost: number of items yielded so far (generator functions)
        self.yconcat = z3.StringVal('')   # ghost: concatenation of the str items yielded so far
        self.known_cls = {}       # address sexpr -> class id (classes never change after allocation)
        self.cls_terms = {}

    # ------------------------------------------------------------------ basics
    def fresh(self, name, sort=None):
        self.counter += 1
        return z3.Const('%s!%d' % (name, self.counter), sort if sort is not None else Value)

    def field(self, name):
        if name not in self.heap:
            self.heap[name] = z3.Const('H0_' + name, field_sort(name))
            self.len_axiom(name)
        return self.heap[name]

    def len_axiom(self, name):
        """Heap typing invariant: list lengths and dict sizes are non-negative (assumed for every fresh heap version)."""
        if name.split('@')[0] in ('list.len', 'dict.n'):
            a = z3.Int('a!len')
            arr = self.heap[name]
            self.assume(z3.ForAll([a], z3.Select(arr, a) >= 0, patterns=[z3.Select(arr, a)]))

    def class_id(self, name):
        if name in CLS:
            return CLS[name]
        names = sorted(self.eng.repo.classes)
        if name not in names:
            raise OutOfSubset('unknown class ' + name)
        return 10 + names.index(name)

    def assume(self, cond):
        cond = z3.simplify(cond) if not z3.is_quantifier(cond) else cond
        if z3.is_true(cond):
            return
        if z3.is_and(cond):
            for c in cond.children():
                self.assume(c)
            return
        sx = cond.sexpr()
        if sx in self.pc_seen:
            return
        self.pc_seen.add(sx)
        self.pc.append(cond)
        # path-feasibility pruning uses the quantifier-free part of the path condition only (fewer assumptions can
        # only make more paths look feasible, never fewer); obligations are always discharged under the full pc
        if 'forall' not in sx and 'exists' not in sx and 'lambda' not in sx and 'str.in_re' not in sx:
            self.solver.add(cond)
        self.pc_hash.update(sx.encode())
        self._note_tags(cond)

    def instantiate(self, term):
        """Assume the instance at `term` of every universally quantified path fact with one Int-sorted bound
        variable (sound: an instance of a universal fact).  Gives the quantifier-free feasibility solver and the
        typing heuristics the facts about the element actually being accessed."""
        term = z3.simplify(term)
        key = term.sexpr()
        done = self.inst_done.setdefault(key, set())
        for idx, fact in enumerate(list(self.pc)):
            if idx in done:
                continue
            if z3.is_quantifier(fact) and fact.is_forall() and fact.num_vars() == 1 \
                    and fact.var_sort(0) == term.sort():
                done.add(idx)
                body = z3.substitute_vars(fact.body(), term)
                self.assume(body)

    def tracked_addresses(self):
        """Addresses of the objects the function talks about directly: reference-valued variables and declared globals."""
        out = []
        fr = self.frames[0]
        for v in list(fr.env.values()) + [f.env.get(k) for f in self.frames[1:] for k in f.env]:
            if isinstance(v, z3.ExprRef) and v.sort() == Value and \
                    (static_tag(v) == 'VRef' or self.tagcache.get(v.sexpr()) == 'VRef'):
                out.append(z3.simplify(Value.a(v)))
        for key in self.eng.globals_decl:
            g = z3.simplify(z3.Select(self.field('glob'), self.global_addr(key)))
            out.append(z3.simplify(Value.a(g)))
        seen, res = set(), []
        for a in out:
            if a.sexpr() not in seen:
                seen.add(a.sexpr())
                res.append(a)
        return res

    def instantiate_frames(self):
        """After a havoc: assume the instances of the (quantified) frame axioms at the tracked addresses."""
        if self.spec_mode:
            return
        for a in self.tracked_addresses():
            self.instantiate(a)

    def _note_tags(self, cond):
        """Remember `is_T(v)` facts on the path so that spec expressions can be typed without asking the solver."""
        try:
            if z3.is_and(cond):
                for c in cond.children():
                    self._note_tags(c)
            elif z3.is_app(cond) and cond.decl().kind() == z3.Z3_OP_DT_IS:
                ctor = cond.decl().params()[0].name()
                self.tagcache[cond.arg(0).sexpr()] = ctor
            elif z3.is_eq(cond):
                # cls[addr] == n : the class of an object never changes once allocated
                l, r = cond.arg(0), cond.arg(1)
                if z3.is_int_value(l):
                    l, r = r, l
                if z3.is_int_value(r) and z3.is_app(l) and l.decl().kind() == z3.Z3_OP_SELECT:
                    arr = l.arg(0)
                    while z3.is_app(arr) and arr.decl().kind() == z3.Z3_OP_STORE:
                        arr = arr.arg(0)
                    if z3.is_const(arr) and 'cls' in arr.decl().name():
                        key = l.arg(1).sexpr()
                        if key not in self.known_cls:
                            self.known_cls[key] = r.as_long()
                            self.cls_terms[key] = l.arg(1)
                            # objects of different classes are different objects (classes never change)
                            if len(self.cls_terms) <= 60:
                                for k2, t2 in list(self.cls_terms.items()):
                                    if k2 != key and self.known_cls[k2] != r.as_long():
                                        self.assume(l.arg(1) != t2)
        except Exception:
            pass

    def feasible(self, cond):
        cond = z3.simplify(cond)
        if z3.is_true(cond):
            return True
        if z3.is_false(cond):
            return False
        key = (self.pc_hash.hexdigest(), cond.sexpr())
        c = self.eng.feas_cache
        if key in c:
            return c[key]
        self.eng.stats['feas_checks'] += 1
        r = self.solver.check(cond)
        res = (r != z3.unsat)
        c[key] = res
        return res

    def branch(self, cond):
        cond = z3.simplify(cond)
        if z3.is_true(cond):
            return True
        if z3.is_false(cond):
            return False
        ft = self.feasible(cond)
        ff = self.feasible(z3.Not(cond))
        if ft and ff:
            take = (self.ch.choose(2) == 0)
        elif ft:
            take = True
        elif ff:
            take = False
        else:
            raise PathEnd()
        self.assume(cond if take else z3.Not(cond))
        return take

    def where(self, node):
        fr = self.frames[-1] if self.frames else None
        rel = fr.rel if fr else '?'
        return '%s:%s' % (rel, getattr(node, 'lineno', '?'))

    def oid(self, tag):
        c = self.contract
        if c.target:
            mod = c.target.split('::')[0].replace('selfies/', '').replace('utils/', '').replace('.py', '')
            return '%s.%s:%s' % (mod, c.target.split('::')[1], tag)
        return 'lemma.%s:%s' % (c.name, tag)

    def oblige(self, goal, kind, tag, node=None, props=None, note='', assume_after=True):
        """Record a proof obligation `pc => goal` and continue under the assumption that it holds."""
        goal_s = z3.simplify(goal) if not z3.is_quantifier(goal) else goal
        goal_s = self.expand_exists(goal_s)
        if z3.is_and(goal_s) and goal_s.num_args() > 1:
            # one query per conjunct (same clause id): small goals are what the solver is good at
            for c in goal_s.children():
                self.oblige(c, kind, tag, node, props, note, assume_after)
            return
        if not self.ch.replaying:
            ob = Obligation(self.oid(tag), kind, list(self.pc) + ascii_lemmas(goal_s), goal_s,
                            self.where(node) if node is not None else '',
                            self.contract.target or self.contract.name,
                            tuple(props) if props else self.contract.props, list(self.witnesses), note)
            self.obligations.append(ob)
        if not assume_after:
            return      # postconditions are judged independently of each other
        if z3.is_false(goal_s):
            raise PathEnd()
        self.assume(goal_s)

    def probe(self, tag, node=None, cap=None):
        """Vacuity probe: records the current path condition with goal False.  It must NOT be provable: a proof means
        the contract's assumptions at this point are contradictory (everything after it verifies vacuously)."""
        probes = self.eng.probes
        oid = self.oid('vacuity:' + tag)
        if cap is not None and sum(1 for p in probes if p.oid == oid) >= cap:
            return
        if cap is None and self.ch.replaying:
            return
        ob = Obligation(oid, 'vacuity', list(self.pc), z3.BoolVal(False), self.where(node) if node is not None else '',
                        self.contract.target or self.contract.name, self.contract.props, [], '')
        ob.timeout_ms = 3000
        probes.append(ob)

    def expand_exists(self, g, depth=0):
        """Or(A, Exists q. B(q))  ==  Or(A, Exists q. B(q), B(t1), B(t2)) for any terms t: offering the current loop
        positions as explicit witnesses is logically neutral and spares the solver the instantiation search."""
        terms = getattr(self, 'witness_terms', [])
        if not terms or depth > 3:
            return g
        if z3.is_quantifier(g) and g.is_exists() and g.num_vars() == 1 and g.var_sort(0) == I:
            return z3.Or([g] + [z3.substitute_vars(g.body(), t) for t in terms])
        if z3.is_or(g):
            return z3.Or([self.expand_exists(c, depth + 1) for c in g.children()])
        if z3.is_and(g):
            return z3.And([self.expand_exists(c, depth + 1) for c in g.children()])
        if z3.is_app(g) and g.decl().kind() == z3.Z3_OP_IMPLIES:
            return z3.Implies(g.arg(0), self.expand_exists(g.arg(1), depth + 1))
        return g

    def snippet(self, node):
        s = ast.unparse(node)
        return s if len(s) <= 60 else s[:57] + '...'

    # ------------------------------------------------------------------ function verification
    def sym_param(self, name, ann):
        v = self.fresh(name)
        self.witnesses.append((name, v))
        if ann:
            self.assume(self.type_constraint(v, ann))
        return v

    def declared_tags(self, ty):
        ty = ty.strip()
        out = set()
        for t in _split_top(ty, '|'):
            t = t.strip()
            if t in ('int', 'nat'):
                out.add('VInt')
            elif t == 'str':
                out.add('VStr')
            elif t == 'bool':
                out.add('VBool')
            elif t in ('None', 'none'):
                out.add('VNone')
            elif t == 'num':
                out |= {'VInt', 'VNum'}
            elif t == 'float':
                out |= {'VNum', 'VInf'}
            elif t.startswith('tuple'):
                out.add('VTup')
            elif t in ('any', 'Any', 'object'):
                return None
            else:
                out.add('VRef')
        return [t for t in TAGS if t in out]

    def assume_type(self, v, ty):
        """Assume a declared (heap typing) type for a value read from the heap and remember its possible tags."""
        self.assume(self.type_constraint(v, ty))
        tags = self.declared_tags(ty)
        if tags:
            self.tagsets[v.sexpr()] = tags
            if len(tags) == 1:
                self.tagcache[v.sexpr()] = tags[0]

    def type_constraint(self, v, ty):
        ty = ty.strip().strip("'\"")
        alts = _split_top(ty, '|')
        if len(alts) > 1:
            return z3.Or([self.type_constraint(v, t) for t in alts])
        if ty.startswith('Optional[') and ty.endswith(']'):
            return z3.Or(Value.is_VNone(v), self.type_constraint(v, ty[9:-1]))
        if ty in ('any', 'Any', 'object'):
            return z3.BoolVal(True)
        if ty == 'int':
            return Value.is_VInt(v)
        if ty == 'nat':
            return z3.And(Value.is_VInt(v), Value.i(v) >= 0)
        if ty == 'str':
            return Value.is_VStr(v)
        if ty == 'bool':
            return Value.is_VBool(v)
        if ty in ('None', 'none'):
            return Value.is_VNone(v)
        if ty == 'float':
            return z3.Or(Value.is_VNum(v), Value.is_VInf(v))
        if ty == 'num':
            return z3.Or(Value.is_VInt(v), Value.is_VNum(v))
        if ty == 'tuple':
            return Value.is_VTup(v)
        if ty.startswith('tuple<='):
            n = int(ty[7:])
            l = Value.t(v)
            opts = []
            pre = []
            for k in range(n + 1):
                opts.append(z3.And(pre + [VList.is_Nil(l)]))
                pre = pre + [VList.is_Cons(l)]
                l = VList.tl(l)
            return z3.And(Value.is_VTup(v), z3.Or(opts))
        if ty == 'ref':
            return z3.And(Value.is_VRef(v), Value.a(v) >= 0, Value.a(v) < self.alloc)
        if ty in CLS or ty in self.eng.repo.classes:
            return z3.And(Value.is_VRef(v), Value.a(v) >= 0, Value.a(v) < self.alloc,
                          z3.Select(self.field('cls'), Value.a(v)) == self.class_id(ty))
        if ty.startswith('dict[') and ty.endswith(']'):
            a = Value.a(v)
            self.dict_key_type[z3.simplify(a).sexpr()] = ty[5:-1]
            return z3.And(Value.is_VRef(v), a >= 0, a < self.alloc,
                          z3.Select(self.field('cls'), a) == self.class_id('dict'),
                          z3.Select(self.field('dict.n'), a) >= 0)
        if ty.startswith('iter[') and ty.endswith(']'):
            a = Value.a(v)
            self.iter_elem[z3.simplify(a).sexpr()] = ty[5:-1]
            pos = z3.Select(self.field('gen.pos'), a)
            n = z3.Select(self.field('gen.n'), a)
            exc = z3.Select(self.field('gen.exc'), a)
            return z3.And(Value.is_VRef(v), a >= 0, a < self.alloc,
                          z3.Select(self.field('cls'), a) == self.class_id('gen'), 0 <= pos, pos <= n,
                          0 <= exc, exc <= 1)
        if ty.startswith('tuple[') and ty.endswith(']'):
            parts = _split_top(ty[6:-1])
            l = Value.t(v)
            cs = [Value.is_VTup(v)]
            for p in parts:
                cs.append(VList.is_Cons(l))
                cs.append(self.type_constraint(VList.hd(l), p))
                l = VList.tl(l)
            cs.append(VList.is_Nil(l))
            return z3.And(cs)
        raise OutOfSubset('unknown type ' + ty)

    def verify_function(self, contract):
        self.contract = contract
        self.alloc = self.fresh('alloc0', I)
        self.assume(self.alloc >= 0)
        try:
            if contract.kind == 'lemma':
                fn, rel, body = contract.node, contract.file, contract.body
            else:
                fn = self.eng.repo.func(contract.target)
                rel, body = fn._vrel, fn.body
            env = {}
            for (name, ann, dflt) in contract.params:
                env[name] = self.sym_param(name, ann)
            if contract.vararg:
                env[contract.vararg] = self.sym_param(contract.vararg, contract.vararg_ann or 'tuple')
            if contract.kind != 'lemma':
                real = [a.arg for a in fn.args.args]
                want = [p[0] for p in contract.params]
                if real != want or (fn.args.vararg.arg if fn.args.vararg else None) != contract.vararg:
                    raise SourceError('contract-signature-mismatch %s: %s vs %s' % (contract.target, real, want))
            for cl in contract.of('ghost'):
                env[cl.extra['name']] = self.sym_param(cl.extra['name'], cl.extra['type'])
            self.frames.append(Frame(fn, rel, env, contract))
            self.check_loop_names()
            self.local_lists = find_local_lists(fn) if contract.kind != 'lemma' else set()
            for cl in contract.of('requires'):
                self.assume_spec(cl.expr)
            if not self.feasible(z3.BoolVal(True) if not self.pc else self.pc[-1]):
                raise PathEnd()
            self.probe('precondition-satisfiable')
            self.entry = Snapshot(self)
            self.old = self.entry
            self.mods = []
            for cl in contract.of('modifies'):
                for e in cl.extra['exprs']:
                    self.mods.append(self.mod_pred(e))
            self.entry_measure = None
            dec = contract.of('decreases')
            if dec:
                self.entry_measure = self.as_int(self.ev_spec_val(dec[0].expr))
            result = None
            try:
                self.exec_block(body)
                result = VNone
            except ReturnSig as r:
                result = r.v
            except PyExc as e:
                self.check_exceptional(contract, e)
                return
            self.check_normal(contract, result)
        except PathEnd:
            return

    def check_normal(self, contract, result):
        fr = self.frames[-1]
        fr.env = dict(self.entry.env, **{k: v for k, v in fr.env.items() if k not in self.entry.env})
        # parameters are evaluated in ensures at their entry values (as in Gobra/Dafny `old` for params)
        for k, v in self.entry.env.items():
            fr.env[k] = v
        fr.env['result'] = result
        self.probe('normal-exit-reachable', cap=4)
        for cl in contract.of('returns'):
            if isinstance(result, Const):
                self.oblige(z3.BoolVal(False), 'post', 'returns-type', None)
            else:
                self.oblige(self.type_constraint(result, cl.extra['type']), 'post', 'returns-type', None)
        for cl in contract.of('ensures'):
            g = self.ev_spec(cl.expr)
            self.oblige(g, 'post', cl.tag or ('post@%d' % cl.line), None, cl.props, assume_after=False)

    def check_exceptional(self, contract, e):
        fr = self.frames[-1]
        for k, v in self.entry.env.items():
            fr.env[k] = v
        allowed = []
        for cl in contract.of('raises'):
            if exc_isa(e.cls, cl.extra['exc']):
                allowed.append(cl)
        tagbase = 'raises:%s' % e.cls
        if e.implicit:
            tagbase = 'noexc:%s@%s' % (e.implicit, e.where or '')
        if not allowed:
            self.oblige(z3.BoolVal(False), 'exc', tagbase, None, None,
                        note='undeclared %s escapes (%s)' % (e.cls, e.where))
            return
        conds = []
        for cl in allowed:
            if cl.expr is None:
                conds.append(z3.BoolVal(True))
            else:
                saved = self.heap, self.alloc
                self.heap, self.alloc = dict(self.entry.heap), self.entry.alloc
                conds.append(self.ev_spec(cl.expr))
                self.heap, self.alloc = saved
        self.oblige(z3.Or(conds), 'exc', tagbase + ':when', None, allowed[0].props,
                    note='%s raised outside its declared condition (%s)' % (e.cls, e.where))
        for cl in contract.of('ensures_on_raise'):
            if 'exc' in cl.extra and not exc_isa(e.cls, cl.extra['exc']):
                continue
            self.oblige(self.ev_spec(cl.expr), 'post-exc', cl.tag or ('post-exc@%d' % cl.line), None, cl.props)

    # ------------------------------------------------------------------ spec evaluation
    def ev_spec(self, node):
        """Evaluate a specification expression to a z3 Bool (or Value if not boolean)."""
        self.spec_mode += 1
        try:
            v = self.ev(node)
            return self.truth(v)
        finally:
            self.spec_mode -= 1

    def assume_spec(self, node):
        """Assume a specification expression conjunct by conjunct (through `and` and through calls of plain spec
        functions), so that facts established by earlier conjuncts (types, classes) inform the evaluation of later
        ones.  Equivalent to assume(ev_spec(node))."""
        if isinstance(node, ast.BoolOp) and isinstance(node.op, ast.And):
            for v in node.values:
                self.assume_spec(v)
            return
        if isinstance(node, ast.Call) and isinstance(node.func, ast.Name) and node.func.id in self.eng.specs \
                and node.func.id not in self.frames[-1].env and not node.keywords:
            c = self.eng.specs[node.func.id]
            from .calls import _is_recursive
            if c.name not in self.opaque_names() and not _is_recursive(c) and len(node.args) == len(c.params):
                body = [st for st in c.node.body
                        if not (isinstance(st, ast.Expr) and isinstance(st.value, ast.Constant))]
                if len(body) == 1 and isinstance(body[0], ast.Return):
                    self.spec_mode += 1
                    try:
                        args = [self.ev(a) for a in node.args]
                    finally:
                        self.spec_mode -= 1
                    fr = self.frames[-1]
                    self.frames.append(Frame(fr.fn, fr.rel, dict(zip([p[0] for p in c.params], args)), fr.contract))
                    saved_bound = self.bound
                    self.bound = {}
                    try:
                        self.assume_spec(body[0].value)
                    finally:
                        self.bound = saved_bound
                        self.frames.pop()
                    return
        self.assume(self.ev_spec(node))

    def ev_spec_val(self, node):
        self.spec_mode += 1
        try:
            return self.ev(node)
        finally:
            self.spec_mode -= 1

    # ------------------------------------------------------------------ statements
    def exec_block(self, stmts):
        for st in stmts:
            self.exec_stmt(st)

    def exec_stmt(self, st):
        m = getattr(self, 'st_' + type(st).__name__, None)
        if m is None:
            raise OutOfSubset('statement %s at %s' % (type(st).__name__, self.where(st)))
        m(st)

    def st_Expr(self, st):
        if isinstance(st.value, ast.Constant):
            return
        if isinstance(st.value, ast.Yield):
            self.do_yield(st.value, st)
            return
        self.ev(st.value)

    def do_yield(self, node, st):
        """`yield e` in a generator function under contract: the item is appended to the ghost output (count and, for
        str items, concatenation) and must satisfy every `yields(...)` clause."""
        if len(self.frames) != 1:
            raise OutOfSubset('yield in an inlined function')
        v = self.val(self.ev(node.value)) if node.value is not None else VNone
        fr = self.frames[-1]
        saved = fr.env.get('item')
        fr.env['item'] = v
        for cl in self.contract.of('yields'):
            self.oblige(self.ev_spec(cl.expr), 'yield', cl.tag or ('yields@%d' % cl.line), st, cl.props)
        if saved is None:
            fr.env.pop('item', None)
        else:
            fr.env['item'] = saved
        self.ycount = z3.simplify(self.ycount + 1)
        t = static_tag(v) or self.tagcache.get(v.sexpr())
        if t == 'VStr':
            self.yconcat = z3.simplify(z3.Concat(self.yconcat, Value.s(v)))
        else:
            self.yconcat = self.fresh('yc', S)

    def st_Pass(self, st):
        pass

    def st_Global(self, st):
        pass

    def st_Return(self, st):
        if st.value is None:
            raise ReturnSig(VNone)
        v = self.ev(st.value)
        if isinstance(v, Const) and not liftable(v.py):
            raise ReturnSig(v)      # a module-level constant object escapes (judged by the postconditions)
        raise ReturnSig(self.val(v))

    def st_Break(self, st):
        raise BreakSig()

    def st_Continue(self, st):
        raise ContinueSig()

    def st_Assign(self, st):
        local = (len(st.targets) == 1 and isinstance(st.targets[0], ast.Name)
                 and st.targets[0].id in self.local_lists and len(self.frames) == 1)
        if local:
            # the list created by this statement is allocated directly in its private region (see lfield)
            self.alloc_region = st.targets[0].id
        try:
            v = self.ev(st.value)
        finally:
            self.alloc_region = None
        for t in st.targets:
            self.assign(t, v)

    def st_AnnAssign(self, st):
        if st.value is not None:
            self.assign(st.target, self.ev(st.value))

    def st_AugAssign(self, st):
        cur = self.ev(_load(st.target))
        v = self.binop(st.op, cur, self.ev(st.value), st, aug=True)
        if v is not None:        # None: in-place mutation already performed (list +=)
            self.assign(st.target, v)

    def st_If(self, st):
        if self.branch(self.truth(self.ev(st.test))):
            self.exec_block(st.body)
        else:
            self.exec_block(st.orelse)

    def st_Assert(self, st):
        if not self.branch(self.truth(self.ev(st.test))):
            raise PyExc('AssertionError', self.snippet(st.test), implicit='assert')

    def st_Raise(self, st):
        if st.exc is None:
            raise OutOfSubset('bare raise')
        if st.cause is not None and not (isinstance(st.cause, ast.Constant) and st.cause.value is None):
            self.ev(st.cause)
        e = st.exc
        name = None
        if isinstance(e, ast.Call):
            if isinstance(e.func, ast.Name):
                name = e.func.id
            for a in e.args:       # message expressions are executed (exception freedom) but opaque
                self.ev(a)
        elif isinstance(e, ast.Name):
            name = e.id
        if name is None:
            raise OutOfSubset('raise of non-class at ' + self.where(st))
        raise PyExc(name, '%s' % self.where(st))

    def st_Try(self, st):
        if st.finalbody:
            raise OutOfSubset('try/finally')
        try:
            self.exec_block(st.body)
        except PyExc as e:
            for h in st.handlers:
                names = []
                if h.type is None:
                    names = ['BaseException']
                elif isinstance(h.type, ast.Tuple):
                    names = [x.id for x in h.type.elts]
                else:
                    names = [h.type.id]
                if any(exc_isa(e.cls, n) for n in names):
                    if h.name:
                        self.frames[-1].env[h.name] = self.opaque_exc(e)
                    self.exec_block(h.body)
                    return
            raise
        else:
            self.exec_block(st.orelse)

    def opaque_exc(self, e):
        return self.fresh('exc')

    def st_FunctionDef(self, st):
        self.frames[-1].env[st.name] = LambdaVal(st, self.frames[-1].env)

    def assign(self, target, v):
        if isinstance(target, ast.Name):
            fr = self.frames[-1]
            gkey = self.global_key(target.id)
            if gkey is not None and target.id not in fr.env and self.declared_global(fr, target.id):
                self.write_global(gkey, self.val(v), target)
            else:
                fr.env[target.id] = v
        elif isinstance(target, (ast.Tuple, ast.List)):
            items = self.unpack(v, len(target.elts), target)
            for t, it in zip(target.elts, items):
                self.assign(t, it)
        elif isinstance(target, ast.Attribute):
            obj = self.ev(target.value)
            self.set_attr(obj, target.attr, self.val(v), target)
        elif isinstance(target, ast.Subscript):
            obj = self.ev(target.value)
            if isinstance(target.slice, ast.Slice):
                raise OutOfSubset('slice assignment')
            self.set_item(obj, self.ev(target.slice), self.val(v), target)
        else:
            raise OutOfSubset('assignment target ' + type(target).__name__)

    def declared_global(self, fr, name):
        for n in ast.walk(fr.fn):
            if isinstance(n, ast.Global) and name in n.names:
                return True
        return False

    # ------------------------------------------------------------------ loops
    def loop_spec(self, node):
        fr = self.frames[-1]
        c = fr.contract
        if c is None:
            return None
        hdr = loop_header(node)
        invs = [cl for cl in c.of('invariant') if cl.extra['loop'] == hdr]
        var = [cl for cl in c.of('variant') if cl.extra['loop'] == hdr]
        unr = [cl for cl in c.of('unroll') if cl.extra['loop'] == hdr]
        lem = [cl for cl in c.of('use_lemma') if cl.extra['loop'] == hdr]
        known = {cl.extra['loop'] for cl in c.clauses if 'loop' in cl.extra}
        if not invs and not unr:
            return None
        return {'invs': invs, 'variant': var[0] if var else None, 'unroll': unr[0].extra['k'] if unr else None,
                'hdr': hdr, 'lemmas': lem}

    def check_loop_names(self):
        c = self.contract
        if c.kind == 'lemma' or not c.target:
            return
        fn = self.eng.repo.func(c.target)
        hdrs = {loop_header(l) for l in find_loops(fn)}
        for cl in c.clauses:
            if 'loop' in cl.extra and cl.extra['loop'] is not None and cl.extra['loop'] not in hdrs:
                raise SourceError('contract-target-missing loop %r in %s' % (cl.extra['loop'], c.target))

    def assigned_names(self, stmts):
        out = set()
        for st in stmts:
            for n in ast.walk(st):
                if isinstance(n, ast.Name) and isinstance(n.ctx, ast.Store):
                    out.add(n.id)
                elif isinstance(n, ast.ExceptHandler) and n.name:
                    out.add(n.name)
        return out

    def havoc_loop(self, node, extra_names=()):
        fr = self.frames[-1]
        if any(isinstance(n, ast.Yield) for stt in node.body for n in ast.walk(stt)):
            self.ycount = self.fresh('ycount', I)
            self.assume(self.ycount >= 0)
            self.yconcat = self.fresh('yconcat', S)
        names = self.assigned_names(node.body) | set(extra_names)
        for n in sorted(names):
            if n in fr.env and isinstance(fr.env[n], (FuncVal, Builtin, LambdaVal, ClassVal, Const)):
                continue
            fr.env[n] = self.fresh(n)
        fields = self.written_fields(node.body, fr.rel)
        # private list regions are havocked only when the body mutates that very variable
        for nm in sorted(self.local_lists):
            touched = False
            for st in node.body:
                for n in ast.walk(st):
                    if isinstance(n, ast.Name) and n.id == nm:
                        touched = True
            if touched:
                for which in ('len', 'items'):
                    f = 'list.%s@%s' % (which, nm)
                    if f in self.heap:
                        fields.add(f)
        self.havoc_heap(fields, self.mods_now())

    def mods_now(self):
        return list(self.mods)

    def havoc_heap(self, fields, mods, fresh_ok=True):
        """Replace the given heap fields by fresh arrays; objects allocated before function entry that are not in
        `mods` keep their contents (frame), as do all objects when a field is not in `fields`."""
        pre_alloc = self.alloc
        new_alloc = self.fresh('alloc', I)
        self.assume(new_alloc >= pre_alloc)
        a = z3.Int('a!f')
        for f in sorted(fields):
            old = self.field(f)
            new = self.fresh('H_' + f, field_sort(f))
            self.heap[f] = new
            self.len_axiom(f)
            limit = self.entry.alloc if self.entry is not None else pre_alloc
            conds = [a >= 0, a < limit] + ([] if f == 'cls' else [z3.Not(m(a)) for m in mods])
            body = z3.Implies(z3.And(conds), z3.Select(new, a) == z3.Select(old, a))
            self.assume(z3.ForAll([a], body, patterns=[z3.Select(new, a)]))
        self.alloc = new_alloc
        self.instantiate_frames()

    def st_While(self, st):
        spec = self.loop_spec(st)
        if spec is None or spec['unroll'] is not None:
            k = spec['unroll'] if spec else 256
            n = 0
            while True:
                if not self.branch(self.truth(self.ev(st.test))):
                    self.exec_block(st.orelse)
                    return
                if n >= k:
                    if spec is None:
                        raise OutOfSubset('loop needs an invariant: %s at %s' % (loop_header(st), self.where(st)))
                    self.oblige(z3.BoolVal(False), 'unwind', 'unwind:%s' % spec['hdr'], st)
                    raise PathEnd()
                n += 1
                if spec is None and n > 12 and len(self.ch.trace) > 12:
                    raise OutOfSubset('loop needs an invariant: %s at %s' % (loop_header(st), self.where(st)))
                try:
                    self.exec_block(st.body)
                except BreakSig:
                    return
                except ContinueSig:
                    pass
        hdr = spec['hdr']
        for cl in spec['invs']:
            self.oblige(self.ev_spec(cl.expr), 'inv-entry', 'inv-entry:%s:%s' % (hdr, cl.tag or cl.line), st, cl.props)
        self.havoc_loop(st)
        for cl in spec['invs']:
            self.assume_spec(cl.expr)
        for cl in spec['lemmas']:
            self.ev_spec_val(cl.expr)
        m0 = None
        if spec['variant'] is not None:
            m0 = self.as_int(self.ev_spec_val(spec['variant'].expr))
        if not self.branch(self.truth(self.ev(st.test))):
            self.exec_block(st.orelse)
            return
        self.probe('loop-body-reachable:' + hdr, st, cap=2)
        try:
            self.exec_block(st.body)
        except BreakSig:
            return
        except ContinueSig:
            pass
        self.end_of_body(spec, st, m0)

    def end_of_body(self, spec, st, m0):
        hdr = spec['hdr']
        for cl in spec['lemmas']:
            self.ev_spec_val(cl.expr)
        for cl in spec['invs']:
            self.oblige(self.ev_spec(cl.expr), 'inv-preserve', 'inv:%s:%s' % (hdr, cl.tag or cl.line), st, cl.props)
        if m0 is not None:
            m1 = self.as_int(self.ev_spec_val(spec['variant'].expr))
            self.oblige(z3.And(m0 >= 0, m1 < m0), 'variant', 'variant:%s' % hdr, st)
        raise PathEnd()

    def st_For(self, st):
        if st.orelse:
            raise OutOfSubset('for/else')
        spec = self.loop_spec(st)
        it = self.make_iter(st.iter)
        fr = self.frames[-1]
        if spec is None or spec['unroll'] is not None:
            k = spec['unroll'] if spec else 512
            n = 0
            while True:
                has = it.has_next(self, n)
                if not self.branch(has):
                    it.finish(self, n)
                    return
                if n >= k:
                    if spec is None:
                        raise OutOfSubset('loop needs an invariant: %s at %s' % (loop_header(st), self.where(st)))
                    self.oblige(z3.BoolVal(False), 'unwind', 'unwind:%s' % spec['hdr'], st)
                    raise PathEnd()
                self.assign(st.target, it.item(self, n))
                n += 1
                try:
                    self.exec_block(st.body)
                except BreakSig:
                    return
                except ContinueSig:
                    pass
        hdr = spec['hdr']
        kname = '_k'
        saved_k = fr.env.get(kname)
        fr.env[kname] = VInt(0)
        for cl in spec['invs']:
            self.oblige(self.ev_spec(cl.expr), 'inv-entry', 'inv-entry:%s:%s' % (hdr, cl.tag or cl.line), st, cl.props)
        self.havoc_loop(st, extra_names=self.assigned_names([ast.Assign(targets=[st.target], value=ast.Constant(0))]))
        k = self.fresh('k', I)
        fr.env[kname] = VInt(k)
        self.assume(k >= 0)
        self.assume(it.in_range(self, k))
        for cl in spec['invs']:
            self.assume_spec(cl.expr)
        m0 = it.remaining(self, k)
        if not self.branch(it.has_next(self, k)):
            it.finish(self, k)
            if saved_k is not None:
                fr.env[kname] = saved_k
            return
        self.instantiate(k)
        self.witness_terms = [k, k - 1] + getattr(self, 'witness_terms', [])[:2]
        self.assign(st.target, it.item(self, k))
        self.probe('loop-body-reachable:' + hdr, st, cap=2)
        try:
            self.exec_block(st.body)
        except BreakSig:
            return
        except ContinueSig:
            pass
        fr.env[kname] = VInt(k + 1)
        for cl in spec['lemmas']:
            self.ev_spec_val(cl.expr)
        for cl in spec['invs']:
            self.oblige(self.ev_spec(cl.expr), 'inv-preserve', 'inv:%s:%s' % (hdr, cl.tag or cl.line), st, cl.props)
        raise PathEnd()


_ASCII_RE = z3.Star(z3.Range(chr(0), chr(127)))


def ascii_lemmas(goal):
    """Instances of the closure lemma `concatenations and substrings of ASCII strings are ASCII` for the terms the goal
    asks about: for every subterm in_re(X, [\\x00-\\x7f]*) of the goal, (all string leaves of X are ASCII) => X is ASCII.
    A valid fact about strings, added as a hypothesis (the solvers do not find it by themselves within budget)."""
    want = _ASCII_RE.sexpr()
    out, seen, todo = [], set(), [goal]
    while todo:
        t = todo.pop()
        if t.get_id() in seen:
            continue
        seen.add(t.get_id())
        if z3.is_quantifier(t):
            continue
        if z3.is_app(t):
            if t.decl().kind() == z3.Z3_OP_SEQ_IN_RE and t.arg(1).sexpr() == want:
                leaves, ok = [], True
                stack = [t.arg(0)]
                while stack:
                    x = stack.pop()
                    k = x.decl().kind() if z3.is_app(x) else None
                    if k == z3.Z3_OP_SEQ_CONCAT:
                        stack.extend(x.children())
                    elif k in (z3.Z3_OP_SEQ_EXTRACT, z3.Z3_OP_SEQ_AT):
                        stack.append(x.arg(0))
                    elif k == z3.Z3_OP_ITE:
                        stack.extend([x.arg(1), x.arg(2)])
                    elif z3.is_string_value(x):
                        if not all(ord(c) < 128 for c in x.as_string()):
                            ok = False
                    else:
                        leaves.append(x)
                if ok and (len(leaves) != 1 or leaves[0].get_id() != t.arg(0).get_id()):
                    out.append(z3.Implies(z3.And([z3.InRe(l, _ASCII_RE) for l in leaves]) if leaves else z3.BoolVal(True), t))
            todo.extend(t.children())
    return out


def is_val_term(v):
    return isinstance(v, z3.ExprRef) and v.sort() == Value


def find_local_lists(fn):
    """Names assigned exactly once, from a list display / list() / [x] * n, and otherwise used only as the subject
    of subscripts, len(), truth tests, `for` iteration or list-method calls - never passed, returned or stored."""
    assigns, bad = {}, set()
    parents = {}
    for node in ast.walk(fn):
        for ch in ast.iter_child_nodes(node):
            parents[ch] = node
    for node in ast.walk(fn):
        if isinstance(node, ast.Name):
            par = parents.get(node)
            if isinstance(node.ctx, ast.Store):
                if isinstance(par, ast.Assign) and len(par.targets) == 1 and par.targets[0] is node:
                    v = par.value
                    ok = isinstance(v, ast.List) or \
                        (isinstance(v, ast.Call) and isinstance(v.func, ast.Name) and v.func.id == 'list' and not v.args) or \
                        (isinstance(v, ast.BinOp) and isinstance(v.op, ast.Mult) and isinstance(v.left, ast.List))
                    if ok and node.id not in assigns:
                        assigns[node.id] = par
                    else:
                        bad.add(node.id)
                else:
                    bad.add(node.id)
            elif isinstance(node.ctx, ast.Load):
                ok = False
                if isinstance(par, ast.Subscript) and par.value is node:
                    ok = True
                elif isinstance(par, ast.Call) and isinstance(par.func, ast.Name) and par.func.id == 'len' \
                        and par.args == [node]:
                    ok = True
                elif isinstance(par, ast.Attribute) and par.value is node and par.attr in ('append', 'extend', 'insert') \
                        and isinstance(parents.get(par), ast.Call) and parents[par].func is par:
                    ok = True
                elif isinstance(par, (ast.If, ast.While)) and par.test is node:
                    ok = True
                elif isinstance(par, ast.UnaryOp) and isinstance(par.op, ast.Not):
                    ok = True
                elif isinstance(par, ast.For) and par.iter is node:
                    ok = True
                if not ok:
                    bad.add(node.id)
    args = {a.arg for a in fn.args.args}
    return {n for n in assigns if n not in bad and n not in args}


def _load(target):
    import copy
    t = copy.deepcopy(target)
    for n in ast.walk(t):
        if hasattr(n, 'ctx'):
            n.ctx = ast.Load()
    return t


def _split_top(s, sep=','):
    out, depth, cur = [], 0, ''
    for ch in s:
        if ch == '[':
            depth += 1
        elif ch == ']':
            depth -= 1
        if ch == sep and depth == 0:
            out.append(cur.strip())
            cur = ''
        else:
            cur += ch
    if cur.strip():
        out.append(cur.strip())
    return out


from .source import SourceError   # noqa: E402
