"""Extraction of the real functions from /repo's working tree (ast) and parsing of sidecar contracts."""
import ast
import importlib
import os
import sys

REPO = os.environ.get('VERIF_REPO', '/repo')


class SourceError(Exception):
    pass


class Repo:
    """AST view of /repo/selfies, re-read on every construction (nothing cached across runs)."""

    def __init__(self, root=None, overlay=None):
        """overlay: {relpath: source text} replacing files in memory (canary edits); nothing is written to disk"""
        self.root = root or REPO
        self.modules = {}      # relpath -> ast.Module
        self.text = {}
        self.funcs = {}        # 'relpath::qualname' -> FunctionDef
        self.byname = {}       # bare name -> [keys]
        self.classes = {}      # class name -> (relpath, ClassDef)
        base = os.path.join(self.root, 'selfies')
        for dp, dn, fn in os.walk(base):
            for f in sorted(fn):
                if f.endswith('.py'):
                    p = os.path.join(dp, f)
                    rel = os.path.relpath(p, self.root)
                    src = open(p).read()
                    if overlay and rel in overlay:
                        src = overlay[rel]
                    self.text[rel] = src
                    tree = ast.parse(src, filename=p)
                    self.modules[rel] = tree
                    self._index(rel, tree)

    def _index(self, rel, tree):
        for node in tree.body:
            if isinstance(node, ast.FunctionDef):
                self._add(rel, node.name, node)
            elif isinstance(node, ast.ClassDef):
                self.classes[node.name] = (rel, node)
                for sub in node.body:
                    if isinstance(sub, ast.FunctionDef):
                        self._add(rel, node.name + '.' + sub.name, sub)

    def _add(self, rel, qual, node):
        key = rel + '::' + qual
        self.funcs[key] = node
        node._vkey = key
        node._vrel = rel
        self.byname.setdefault(qual.split('.')[-1], []).append(key)

    def func(self, key):
        if key not in self.funcs:
            raise SourceError('contract-target-missing ' + key)
        return self.funcs[key]

    def modname(self, rel):
        return rel[:-3].replace('/', '.')

    def import_module(self, rel):
        if self.root not in sys.path:
            sys.path.insert(0, self.root)
        return importlib.import_module(self.modname(rel))

    def module_imports(self, rel):
        """name -> ('module', modrel) | ('name', modrel, name) for `from selfies.x import y` statements."""
        out = {}
        for node in self.modules[rel].body:
            if isinstance(node, ast.ImportFrom) and node.module and node.module.startswith('selfies'):
                mrel = node.module.replace('.', '/') + '.py'
                for a in node.names:
                    out[a.asname or a.name] = ('name', mrel, a.name)
        return out


def find_loops(fn):
    """All loops of a function in source order with their header text."""
    out = []

    class V(ast.NodeVisitor):
        def visit_While(self, n):
            out.append(n)
            self.generic_visit(n)

        def visit_For(self, n):
            out.append(n)
            self.generic_visit(n)

        def visit_FunctionDef(self, n):
            if n is fn:
                self.generic_visit(n)

        def visit_Lambda(self, n):
            pass
    V().visit(fn)
    return out


def loop_header(n):
    if isinstance(n, ast.While):
        return 'while ' + ast.unparse(n.test)
    t = ast.unparse(n.target)
    if isinstance(n.target, ast.Tuple) and t.startswith('(') and t.endswith(')'):
        t = t[1:-1]
    return 'for ' + t + ' in ' + ast.unparse(n.iter)


# ----------------------------------------------------------------------------------------------
# contracts
# ----------------------------------------------------------------------------------------------

class Clause:
    def __init__(self, kind, expr=None, tag=None, props=(), extra=None, line=0):
        self.kind = kind
        self.expr = expr
        self.tag = tag
        self.props = tuple(props)
        self.extra = extra or {}
        self.line = line

    def __repr__(self):
        return 'Clause(%s,%s,%s)' % (self.kind, self.tag, ast.unparse(self.expr) if self.expr is not None else '')


class Contract:
    def __init__(self, target, name, params, props, clauses, file, kind='contract', node=None):
        self.target = target
        self.name = name
        self.params = params          # list of (name, annotation-string|None, default ast|None)
        self.props = tuple(props)
        self.clauses = clauses
        self.file = file
        self.kind = kind              # contract | spec | lemma
        self.node = node
        self.vararg = None
        self.vararg_ann = None

    def of(self, kind):
        return [c for c in self.clauses if c.kind == kind]

    @property
    def inline(self):
        return bool(self.of('inline'))


def _props_of_tag(tag, default):
    if tag and ':' in tag:
        return tuple(tag.split(':')[0].split(','))
    return tuple(default)


def _const(node):
    # a compiled pattern constant `re.compile("<literal>")` (for re_fullmatch) besides plain literals
    if isinstance(node, ast.Call) and isinstance(node.func, ast.Attribute) and node.func.attr == 'compile' \
            and isinstance(node.func.value, ast.Name) and node.func.value.id == 're' and len(node.args) == 1 \
            and not node.keywords:
        import re
        return re.compile(ast.literal_eval(node.args[0]))
    return ast.literal_eval(node)


CLAUSE_KINDS = {'requires', 'ensures', 'raises', 'raises_nothing', 'modifies', 'decreases', 'invariant',
                'variant', 'unroll', 'inline', 'fresh_result', 'reads', 'ghost', 'assume_type', 'loop_modifies',
                'pure', 'ensures_on_raise', 'check', 'use_lemma', 'modifies_global', 'opaque', 'returns', 'yields', 'yields_type'}


def parse_contract_file(path):
    src = open(path).read()
    tree = ast.parse(src, filename=path)
    contracts = []
    specs = {}
    consts = {}
    for node in tree.body:
        if isinstance(node, ast.Assign) and len(node.targets) == 1 and isinstance(node.targets[0], ast.Name):
            try:
                consts[node.targets[0].id] = _const(node.value)
            except Exception:
                pass
        if not isinstance(node, ast.FunctionDef):
            continue
        deco = None
        for d in node.decorator_list:
            if isinstance(d, ast.Call) and isinstance(d.func, ast.Name) and d.func.id in ('contract', 'lemma'):
                deco = d
            elif isinstance(d, ast.Name) and d.id in ('spec', 'lemma'):
                deco = d
        if deco is None:
            continue
        params = []
        args = node.args
        defaults = [None] * (len(args.args) - len(args.defaults)) + list(args.defaults)
        for a, dflt in zip(args.args, defaults):
            params.append((a.arg, ast.unparse(a.annotation) if a.annotation else None, dflt))
        if isinstance(deco, ast.Name) and deco.id == 'spec':
            c = Contract(None, node.name, params, (), [], path, 'spec', node)
            specs[node.name] = c
            continue
        is_lemma = (isinstance(deco, ast.Name) and deco.id == 'lemma') or \
                   (isinstance(deco, ast.Call) and deco.func.id == 'lemma')
        target = None
        props = ()
        if isinstance(deco, ast.Call):
            if deco.args:
                target = _const(deco.args[0])
            for kw in deco.keywords:
                if kw.arg == 'props':
                    props = tuple(_const(kw.value))
        clauses = []
        body_rest = []
        for st in node.body:
            if isinstance(st, ast.Expr) and isinstance(st.value, ast.Call) and isinstance(st.value.func, ast.Name) \
                    and st.value.func.id in CLAUSE_KINDS:
                call = st.value
                kind = call.func.id
                kws = {kw.arg: kw.value for kw in call.keywords}
                tag = _const(kws['tag']) if 'tag' in kws else None
                cprops = _props_of_tag(tag, props)
                extra = {}
                expr = None
                if kind in ('requires', 'ensures', 'decreases', 'check', 'ensures_on_raise', 'yields'):
                    expr = call.args[0]
                    if 'exc' in kws:
                        extra['exc'] = _const(kws['exc'])
                elif kind == 'raises':
                    extra['exc'] = call.args[0].id if isinstance(call.args[0], ast.Name) else _const(call.args[0])
                    expr = kws.get('when')
                    extra['unchanged'] = _const(kws['unchanged']) if 'unchanged' in kws else False
                elif kind in ('invariant', 'variant'):
                    extra['loop'] = _const(call.args[0])
                    expr = call.args[1]
                elif kind == 'unroll':
                    extra['loop'] = _const(call.args[0])
                    extra['k'] = _const(call.args[1])
                elif kind in ('modifies', 'reads', 'loop_modifies'):
                    extra['exprs'] = list(call.args)
                    if kind == 'loop_modifies':
                        extra['loop'] = _const(call.args[0])
                        extra['exprs'] = list(call.args[1:])
                elif kind in ('returns', 'yields_type'):
                    extra['type'] = _const(call.args[0])
                elif kind == 'opaque':
                    extra['names'] = [_const(a) for a in call.args]
                elif kind == 'modifies_global':
                    extra['names'] = [_const(a) for a in call.args]
                elif kind == 'ghost':
                    extra['name'] = _const(call.args[0])
                    extra['type'] = _const(call.args[1])
                elif kind == 'assume_type':
                    extra['name'] = _const(call.args[0])
                    extra['type'] = _const(call.args[1])
                elif kind == 'use_lemma':
                    extra['loop'] = _const(call.args[0]) if call.args else None
                    expr = call.args[1] if len(call.args) > 1 else None
                clauses.append(Clause(kind, expr, tag, cprops, extra, st.lineno))
            elif isinstance(st, ast.Expr) and isinstance(st.value, ast.Constant):
                continue   # docstring
            elif isinstance(st, ast.Pass):
                continue
            else:
                body_rest.append(st)
        c = Contract(target, node.name, params, props, clauses, path, 'lemma' if is_lemma else 'contract', node)
        if args.vararg:
            c.vararg = args.vararg.arg
            if args.vararg.annotation is not None:
                c.vararg_ann = ast.literal_eval(args.vararg.annotation)
        c.body = body_rest      # lemma bodies (proof scripts)
        contracts.append(c)
    return contracts, specs, consts
