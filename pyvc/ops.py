"""Expression evaluation and operations on boxed values."""
import ast
import re as _re
import z3

from .sorts import *
from .engine import (OutOfSubset, PathEnd, PyExc, Const, FuncVal, Builtin, LambdaVal, ClassVal)

PY_BUILTINS = {'len', 'min', 'max', 'abs', 'range', 'enumerate', 'reversed', 'sorted', 'list', 'dict', 'set', 'tuple',
               'isinstance', 'int', 'str', 'float', 'bool', 'next', 'any', 'all', 'sum', 'zip', 'iter', 'filter',
               'map', 'print', 'ValueError', 'KeyError', 'IndexError', 'Exception', 'StopIteration', 'TypeError',
               'AssertionError'}


def liftable(py):
    import enum
    if isinstance(py, enum.Enum):
        return True
    if py is None or isinstance(py, (bool, int, float, str)):
        return True
    if isinstance(py, tuple):
        return all(liftable(x) for x in py)
    return False


def lift(py):
    import enum
    if isinstance(py, enum.Enum):
        return VStr('%s.%s' % (type(py).__name__, py.name))      # enum members: distinct opaque constants
    if py is None:
        return VNone
    if isinstance(py, bool):
        return VBool(py)
    if isinstance(py, int):
        return VInt(py)
    if isinstance(py, float):
        if py == float('inf'):
            return VInf
        return VNum(py)
    if isinstance(py, str):
        return VStr(py)
    if isinstance(py, tuple):
        return VTup([lift(x) for x in py])
    raise OutOfSubset('cannot lift %r' % (type(py),))


def is_val(x):
    return isinstance(x, z3.ExprRef)


class OpsMixin:
    # ------------------------------------------------------------------ values
    def val(self, x):
        if is_val(x):
            return x
        if isinstance(x, Const) and liftable(x.py):
            return lift(x.py)
        raise OutOfSubset('non-value used as value: %r' % (x,))

    def tag(self, v):
        """Dynamic type of a boxed value on this path (forks over the feasible tags if not determined)."""
        t = static_tag(v)
        if t:
            return t
        key = v.sexpr()
        if key in self.tagcache:
            return self.tagcache[key]
        cands = self.tagsets.get(key, TAGS)
        feas = [t for t in cands if self.feasible(is_tag(v, t))]
        if not feas:
            raise PathEnd()
        if len(feas) == 1:
            t = feas[0]
        else:
            t = feas[self.ch.choose(len(feas))]
        self.assume(is_tag(v, t))
        self.tagcache[key] = t
        return t

    def truth(self, v):
        """Python truthiness as a z3 Bool."""
        if z3.is_bool(v):
            return v
        if not is_val(v):
            if isinstance(v, Const):
                return z3.BoolVal(bool(v.py))
            return z3.BoolVal(True)
        v = z3.simplify(v)
        t = static_tag(v)
        if t is None and self.spec_mode:
            return z3.If(Value.is_VBool(v), Value.b(v),
                         z3.If(Value.is_VInt(v), Value.i(v) != 0,
                               z3.If(Value.is_VNone(v), False,
                                     z3.If(Value.is_VStr(v), z3.Length(Value.s(v)) > 0, self._truth_rest(v)))))
        if t is None:
            t = self.tag(v)
        if t == 'VNone':
            return z3.BoolVal(False)
        if t == 'VBool':
            return Value.b(v)
        if t == 'VInt':
            return Value.i(v) != 0
        if t == 'VNum':
            return Value.r(v) != 0
        if t == 'VInf':
            return z3.BoolVal(True)
        if t == 'VStr':
            return z3.Length(Value.s(v)) > 0
        if t == 'VTup':
            return VList.is_Cons(Value.t(v))
        return self._truth_ref(v)

    def _truth_rest(self, v):
        return z3.If(Value.is_VTup(v), VList.is_Cons(Value.t(v)),
                     z3.If(Value.is_VRef(v), self._truth_ref(v), z3.BoolVal(True)))

    def _truth_ref(self, v):
        a = Value.a(v)
        c = z3.Select(self.field('cls'), a)
        return z3.If(z3.Or(c == 1, c == 4), self.lget(a, 'len') != 0,
                     z3.If(z3.Or(c == 2, c == 3), z3.Select(self.field('dict.n'), a) != 0, z3.BoolVal(True)))

    def as_int(self, v):
        if z3.is_int(v):
            return v
        v = self.val(v)
        t = static_tag(v)
        if t == 'VInt':
            return z3.simplify(Value.i(v))
        if t == 'VBool':
            return z3.If(Value.b(v), 1, 0)
        if self.spec_mode:
            return Value.i(v)
        t = self.tag(v)
        if t == 'VInt':
            return Value.i(v)
        if t == 'VBool':
            return z3.If(Value.b(v), 1, 0)
        raise PyExc('TypeError', 'int expected', implicit='type')

    def numeric(self, v, node=None):
        """-> ('int', Int) | ('real', Real) | ('inf', None)"""
        v = self.val(v)
        t = static_tag(v)
        if t is None:
            if self.spec_mode:
                return ('int', Value.i(v))
            t = self.tag(v)
        if t == 'VInt':
            return ('int', z3.simplify(Value.i(v)))
        if t == 'VBool':
            return ('int', z3.If(Value.b(v), 1, 0))
        if t == 'VNum':
            return ('real', z3.simplify(Value.r(v)))
        if t == 'VInf':
            return ('inf', None)
        raise PyExc('TypeError', 'number expected: ' + (self.snippet(node) if node is not None else ''),
                    implicit='type')

    # ------------------------------------------------------------------ expressions
    def ev(self, node):
        m = getattr(self, 'ex_' + type(node).__name__, None)
        if m is None:
            raise OutOfSubset('expression %s: %s' % (type(node).__name__, self.snippet(node)))
        return m(node)

    def ex_Constant(self, node):
        return lift(node.value)

    def ex_Name(self, node):
        return self.lookup(node.id, node)

    def lookup(self, name, node=None):
        fr = self.frames[-1]
        if name in self.bound:
            return self.bound[name]
        if name in fr.env:
            return fr.env[name]
        if self.spec_mode or (fr.contract is not None and fr.contract.kind == 'lemma'):
            if name in self.eng.specs:
                return self.eng.specs[name]
            if name in self.eng.lemmas:
                return self.eng.lemmas[name]
            if name in self.eng.consts:
                py = self.eng.consts[name]
                return lift(py) if liftable(py) else Const(py, name)
            gk = [k for k in self.eng.globals_decl if k.endswith('::' + name)]
            if len(gk) == 1 and self.spec_mode:
                return self.read_global(gk[0])
        rel = fr.rel
        if fr.contract is not None and fr.contract.target:
            rel = fr.contract.target.split('::')[0]
        if rel in self.eng.repo.modules:
            return self.lookup_module(rel, name, node)
        if name in PY_BUILTINS:
            return Builtin(name)
        raise OutOfSubset('unresolved name %s' % name)

    def global_key(self, name):
        fr = self.frames[-1]
        key = fr.rel + '::' + name
        return key if key in self.eng.globals_decl else None

    def lookup_module(self, rel, name, node=None):
        repo = self.eng.repo
        key = rel + '::' + name
        if key in self.eng.globals_decl:
            return self.read_global(key)
        if key in repo.funcs:
            return FuncVal(key, repo.funcs[key])
        imps = repo.module_imports(rel)
        if name in imps:
            _, mrel, oname = imps[name]
            if mrel in repo.modules:
                return self.lookup_module(mrel, oname, node)
        if name in repo.classes and repo.classes[name][0] == rel:
            return ClassVal(name)
        mod = repo.import_module(rel)
        if hasattr(mod, name):
            py = getattr(mod, name)
            if liftable(py):
                return lift(py)
            if isinstance(py, type) and issubclass(py, BaseException):
                return ClassVal(py.__name__)
            return Const(py, rel + '::' + name)
        if name in PY_BUILTINS:
            return Builtin(name)
        raise OutOfSubset('unresolved name %s in %s' % (name, rel))

    def ex_Tuple(self, node):
        items = []
        for e in node.elts:
            if isinstance(e, ast.Starred):
                items.extend(self.static_items(self.ev(e.value), e))
            else:
                items.append(self.val(self.ev(e)))
        return VTup(items)

    def ex_List(self, node):
        items = []
        for e in node.elts:
            if isinstance(e, ast.Starred):
                items.extend(self.static_items(self.ev(e.value), e))
            else:
                items.append(self.val(self.ev(e)))
        return self.new_list(items)

    def ex_Dict(self, node):
        d = self.new_dict()
        items = []
        for k, v in zip(node.keys, node.values):
            kv, vv = self.val(self.ev(k)), self.val(self.ev(v))
            self.dict_set(d, kv, vv, node)
            items.append((kv, vv))
        # a dict display held by a local that is never mutated iterates in its written order
        self.static_dicts[z3.simplify(Value.a(d)).sexpr()] = items
        return d

    def ex_Set(self, node):
        d = self.new_dict(cls='set')
        for k in node.elts:
            self.dict_set(d, self.val(self.ev(k)), VNone, node)
        return d

    def ex_Lambda(self, node):
        return LambdaVal(node, self.frames[-1].env)

    def ex_IfExp(self, node):
        if self.spec_mode:
            c = self.truth(self.ev(node.test))
            a = self.ev(node.body)
            b = self.ev(node.orelse)
            if z3.is_bool(a) or z3.is_bool(b):
                return z3.If(c, self.truth(a), self.truth(b))
            return z3.If(c, self.val(a), self.val(b))
        if self.branch(self.truth(self.ev(node.test))):
            return self.ev(node.body)
        return self.ev(node.orelse)

    def ex_BoolOp(self, node):
        is_and = isinstance(node.op, ast.And)
        if self.spec_mode:
            vals = [self.truth(self.ev(v)) for v in node.values]
            return z3.And(vals) if is_and else z3.Or(vals)
        v = None
        for i, e in enumerate(node.values):
            v = self.ev(e)
            if i == len(node.values) - 1:
                return v
            t = self.branch(self.truth(v))
            if is_and and not t:
                return v
            if (not is_and) and t:
                return v
        return v

    def ex_UnaryOp(self, node):
        v = self.ev(node.operand)
        if isinstance(node.op, ast.Not):
            r = z3.Not(self.truth(v))
            return r if self.spec_mode else VBool(r)
        k, x = self.numeric(v, node)
        if isinstance(node.op, ast.USub):
            if k == 'int':
                return VInt(-x)
            if k == 'real':
                return VNum(-x)
        if isinstance(node.op, ast.UAdd) and k != 'inf':
            return self.val(v)
        raise OutOfSubset('unary op ' + self.snippet(node))

    def ex_BinOp(self, node):
        return self.binop(node.op, self.ev(node.left), self.ev(node.right), node)

    def binop(self, op, a, b, node, aug=False):
        if z3.is_bool(a):
            a = VBool(a)
        if z3.is_bool(b):
            b = VBool(b)
        if isinstance(a, Const) or isinstance(b, Const):
            if isinstance(a, Const) and isinstance(b, Const):
                import operator
                f = {ast.Add: operator.add, ast.Sub: operator.sub, ast.Mult: operator.mul}[type(op)]
                r = f(a.py, b.py)
                return lift(r) if liftable(r) else Const(r)
            if isinstance(op, ast.Add) and isinstance(a, Const) and isinstance(a.py, (list, tuple)):
                a = self.val(a) if isinstance(a.py, tuple) else a
            if isinstance(a, Const):
                a = self.val(a)
            if isinstance(b, Const):
                b = self.val(b)
        ta = static_tag(a) or self.tagcache.get(a.sexpr()) or (None if self.spec_mode else self.tag(a))
        tb = static_tag(b) or self.tagcache.get(b.sexpr()) or (None if self.spec_mode else self.tag(b))
        if z3.is_app(a) and a.decl().kind() == z3.Z3_OP_ITE and ta is None:
            ta = static_tag(a.arg(1)) or static_tag(a.arg(2))
        if z3.is_app(b) and b.decl().kind() == z3.Z3_OP_ITE and tb is None:
            tb = static_tag(b.arg(1)) or static_tag(b.arg(2))
        if self.spec_mode and (ta is None or tb is None) and isinstance(op, (ast.Add, ast.Sub)) \
                and ta in (None, 'VInt', 'VNum') and tb in (None, 'VInt', 'VNum'):
            # generic numeric +/- on values whose int/float tag is not known statically
            both_int = z3.And(Value.is_VInt(a), Value.is_VInt(b))
            ia, ib = Value.i(a), Value.i(b)
            ra, rb = self._toreal(a), self._toreal(b)
            if isinstance(op, ast.Add):
                return z3.If(both_int, VInt(ia + ib), VNum(ra + rb))
            return z3.If(both_int, VInt(ia - ib), VNum(ra - rb))
        if ta is None and tb is None and self.spec_mode:
            ta = tb = 'VInt'
        elif ta is None:
            ta = tb if tb in ('VInt', 'VStr') else 'VInt'
        elif tb is None:
            tb = ta if ta in ('VInt', 'VStr') else 'VInt'
        if ta == 'VStr' and tb == 'VStr' and isinstance(op, ast.Add):
            return VStr(z3.Concat(Value.s(a), Value.s(b)))
        if isinstance(op, ast.Mult) and {ta, tb} == {'VStr', 'VInt'}:
            s, n = (a, b) if ta == 'VStr' else (b, a)
            return self.str_repeat(Value.s(s), Value.i(n), node)
        if ta == 'VTup' and tb == 'VTup' and isinstance(op, ast.Add):
            return VTup(self.static_items(a, node) + self.static_items(b, node))
        if ta == 'VRef' and isinstance(op, ast.Add):
            return self.list_concat(a, b, node, inplace=aug)
        if ta == 'VRef' and tb == 'VInt' and isinstance(op, ast.Mult):
            return self.list_repeat(a, Value.i(b), node)
        if isinstance(op, ast.Mod) and ta == 'VStr':
            raise OutOfSubset('% string formatting')
        ka, x = self.numeric(a, node)
        kb, y = self.numeric(b, node)
        if ka == 'inf' or kb == 'inf':
            if self.spec_mode:
                raise OutOfSubset('arithmetic on inf: ' + self.snippet(node))
            # not modelled; the path is usually an artefact of an inconclusive feasibility check: demand a proof
            # that it is infeasible instead of giving up on the whole function (never silently dropped)
            self.oblige(z3.BoolVal(False), 'subset', 'unmodelled:inf-arithmetic@' + self.snippet(node), node)
            raise PathEnd()
        if isinstance(op, ast.Div):
            raise OutOfSubset('true division')
        if ka == 'int' and kb == 'int':
            if isinstance(op, ast.Add):
                return VInt(x + y)
            if isinstance(op, ast.Sub):
                return VInt(x - y)
            if isinstance(op, ast.Mult):
                return VInt(x * y)
            if isinstance(op, (ast.FloorDiv, ast.Mod)):
                if not self.spec_mode:
                    if not self.branch(y != 0):
                        raise PyExc('ZeroDivisionError', self.snippet(node), implicit='div')
                q = z3.If(y > 0, x / y, (-x) / (-y))    # Python floor division
                if isinstance(op, ast.FloorDiv):
                    return VInt(q)
                return VInt(x - y * q)
            if isinstance(op, ast.Pow):
                return VInt(self.int_pow(x, y, node))
            raise OutOfSubset('int op ' + type(op).__name__)
        x = z3.ToReal(x) if ka == 'int' else x
        y = z3.ToReal(y) if kb == 'int' else y
        if isinstance(op, ast.Add):
            return VNum(x + y)
        if isinstance(op, ast.Sub):
            return VNum(x - y)
        if isinstance(op, ast.Mult):
            return VNum(x * y)
        if isinstance(op, ast.Mod) and kb == 'int' and z3.is_int_value(z3.simplify(y)) is False:
            pass
        if isinstance(op, ast.Mod):
            yy = z3.simplify(y)
            if z3.is_rational_value(yy) and yy.as_fraction() == 1:
                return VNum(x - z3.ToReal(z3.ToInt(x)))
        raise OutOfSubset('float op ' + self.snippet(node))

    def int_pow(self, x, y, node):
        ys = z3.simplify(y)
        if z3.is_int_value(ys):
            n = ys.as_long()
            if n < 0:
                raise OutOfSubset('negative power')
            r = z3.IntVal(1)
            for _ in range(n):
                r = r * x
            return z3.simplify(r)
        xs = z3.simplify(x)
        if z3.is_int_value(xs) and 'pow' in self.eng.specs:
            raise OutOfSubset('symbolic power')
        raise OutOfSubset('symbolic power ' + self.snippet(node))

    # ------------------------------------------------------------------ comparison
    def ex_Compare(self, node):
        left = self.ev(node.left)
        conds = []
        for i, (op, rn) in enumerate(zip(node.ops, node.comparators)):
            right = self.ev(rn)
            c = self.compare(op, left, right, node)
            if self.spec_mode or i == len(node.ops) - 1:
                conds.append(c)
            else:
                if not self.branch(c):
                    return VBool(False)
            left = right
        r = z3.And(conds) if len(conds) > 1 else conds[0]
        return r if self.spec_mode else VBool(r)

    def py_eq(self, a, b):
        """Python == on boxed values (identity for references, numeric cross-type equality)."""
        if isinstance(a, Const) or isinstance(b, Const):
            if isinstance(a, Const) and isinstance(b, Const):
                return z3.BoolVal(a.py == b.py)
            a, b = self.val(a), self.val(b)
        if not is_val(a) or not is_val(b):
            return z3.BoolVal(a is b)
        if z3.is_bool(a):
            a = VBool(a)
        if z3.is_bool(b):
            b = VBool(b)
        ta = static_tag(a) or self.tagcache.get(a.sexpr())
        tb = static_tag(b) or self.tagcache.get(b.sexpr())
        numt = ('VInt', 'VNum', 'VBool')
        if ta and tb:
            if ta == tb:
                return a == b
            if ta in numt and tb in numt:
                return self._num_eq(a, b)
            return z3.BoolVal(False)
        mixed = z3.And(z3.Or(Value.is_VInt(a), Value.is_VNum(a), Value.is_VBool(a)),
                       z3.Or(Value.is_VInt(b), Value.is_VNum(b), Value.is_VBool(b)),
                       self._num_eq(a, b))
        if (ta and ta not in numt) or (tb and tb not in numt):
            return a == b
        return z3.Or(a == b, mixed)

    def _toreal(self, v):
        return z3.If(Value.is_VInt(v), z3.ToReal(Value.i(v)),
                     z3.If(Value.is_VBool(v), z3.If(Value.b(v), z3.RealVal(1), z3.RealVal(0)), Value.r(v)))

    def _num_eq(self, a, b):
        return self._toreal(a) == self._toreal(b)

    def compare(self, op, a, b, node):
        if isinstance(op, ast.Eq):
            return self.py_eq(a, b)
        if isinstance(op, ast.NotEq):
            return z3.Not(self.py_eq(a, b))
        if isinstance(op, (ast.Is, ast.IsNot)):
            if is_val(a) and is_val(b):
                r = (self.val(a) == self.val(b))
            else:
                r = z3.BoolVal(a is b)
            return r if isinstance(op, ast.Is) else z3.Not(r)
        if isinstance(op, (ast.In, ast.NotIn)):
            r = self.contains(b, a, node)
            return r if isinstance(op, ast.In) else z3.Not(r)
        a, b = self.val(a), self.val(b)
        ta = static_tag(a) or (None if self.spec_mode else self.tag(a))
        tb = static_tag(b) or (None if self.spec_mode else self.tag(b))
        if ta == 'VStr' and tb == 'VStr':
            x, y = Value.s(a), Value.s(b)
            return {ast.Lt: x < y, ast.LtE: x <= y, ast.Gt: y < x, ast.GtE: y <= x}[type(op)]
        if ta == 'VNone' or tb == 'VNone':
            if self.spec_mode:
                return z3.BoolVal(False)
            raise PyExc('TypeError', 'ordering comparison with None: ' + self.snippet(node), implicit='type')
        if self.spec_mode and ((ta is None and self.tagcache.get(a.sexpr()) is None)
                               or (tb is None and self.tagcache.get(b.sexpr()) is None)):
            # specification comparison of values whose int/float tag is not known: compare as reals (exact)
            known_int = lambda v, t: t == 'VInt' or self.tagcache.get(v.sexpr()) == 'VInt'
            if not (known_int(a, ta) and known_int(b, tb)):
                ia = z3.And(Value.is_VInt(a), Value.is_VInt(b))
                x, y = self._toreal(a), self._toreal(b)
                xi, yi = Value.i(a), Value.i(b)
                return {ast.Lt: z3.If(ia, xi < yi, x < y), ast.LtE: z3.If(ia, xi <= yi, x <= y),
                        ast.Gt: z3.If(ia, xi > yi, x > y), ast.GtE: z3.If(ia, xi >= yi, x >= y)}[type(op)]
        ka, x = self.numeric(a, node)
        kb, y = self.numeric(b, node)
        if ka == 'inf' or kb == 'inf':
            if ka == 'inf' and kb == 'inf':
                return z3.BoolVal(isinstance(op, (ast.LtE, ast.GtE)))
            if kb == 'inf':
                return z3.BoolVal(isinstance(op, (ast.Lt, ast.LtE)))
            return z3.BoolVal(isinstance(op, (ast.Gt, ast.GtE)))
        if ka != kb:
            x = z3.ToReal(x) if ka == 'int' else x
            y = z3.ToReal(y) if kb == 'int' else y
        return {ast.Lt: x < y, ast.LtE: x <= y, ast.Gt: x > y, ast.GtE: x >= y}[type(op)]

    def contains(self, container, item, node):
        if isinstance(container, Const):
            py = container.py
            if isinstance(py, (set, frozenset, dict, tuple, list)):
                item = self.val(item)
                keys = list(py)
                if not all(liftable(k) for k in keys):
                    raise OutOfSubset('membership in constant with unliftable keys')
                return z3.Or([self.py_eq(item, lift(k)) for k in keys]) if keys else z3.BoolVal(False)
            if isinstance(py, str):
                container = lift(py)
            else:
                raise OutOfSubset('membership in ' + repr(container))
        container = self.val(container)
        item = self.val(item)
        t = static_tag(container)
        if t is None and self.spec_mode:
            t = 'VRef'
        if t is None:
            t = self.tag(container)
        if t == 'VStr':
            if (static_tag(item) or self.tag(item)) != 'VStr':
                raise PyExc('TypeError', 'in <str>', implicit='type')
            return z3.Contains(Value.s(container), Value.s(item))
        if t == 'VTup':
            return z3.Or([self.py_eq(item, x) for x in self.static_items(container, node)] + [z3.BoolVal(False)])
        if t == 'VRef':
            return self.ref_contains(container, item, node)
        raise OutOfSubset('membership test on ' + t)

    # ------------------------------------------------------------------ tuples
    def static_items(self, v, node=None, maxlen=8):
        """Items of a tuple value; forks over the spine if it is not static."""
        if isinstance(v, Const):
            if isinstance(v.py, (tuple, list)):
                return [lift(x) for x in v.py]
            raise OutOfSubset('iteration over constant %r' % v)
        v = self.val(v)
        items = tup_items_static(v)
        if items is not None:
            return items
        t = static_tag(v) or self.tag(v)
        if t != 'VTup':
            if t == 'VRef':
                return self.list_static_items(v, node)
            raise OutOfSubset('static items of ' + t)
        out = []
        l = Value.t(v)
        while True:
            if len(out) > maxlen:
                raise OutOfSubset('tuple of unbounded length: ' + (self.snippet(node) if node is not None else ''))
            if self.branch(VList.is_Nil(l)):
                return out
            out.append(z3.simplify(VList.hd(l)))
            l = z3.simplify(VList.tl(l))

    def unpack(self, v, n, node):
        if not is_val(v) and not isinstance(v, Const):
            raise OutOfSubset('unpack of non-value')
        if isinstance(v, Const) or static_tag(self.val(v)) == 'VTup' or self.tag(self.val(v)) == 'VTup':
            if self.spec_mode or tup_items_static(self.val(v)) is not None or isinstance(v, Const):
                items = self.static_items(v, node)
            else:
                # dynamic spine: arity is an implicit obligation
                l = Value.t(self.val(v))
                items = []
                for _ in range(n):
                    if not self.branch(VList.is_Cons(l)):
                        raise PyExc('ValueError', 'unpack arity ' + self.snippet(node), implicit='unpack')
                    items.append(z3.simplify(VList.hd(l)))
                    l = z3.simplify(VList.tl(l))
                if not self.branch(VList.is_Nil(l)):
                    raise PyExc('ValueError', 'unpack arity ' + self.snippet(node), implicit='unpack')
                return items
        else:
            items = self.list_static_items(self.val(v), node)
        if len(items) != n:
            raise PyExc('ValueError', 'unpack arity ' + self.snippet(node), implicit='unpack')
        return items

    # ------------------------------------------------------------------ subscripts
    def ex_Subscript(self, node):
        obj = self.ev(node.value)
        if isinstance(node.slice, ast.Slice):
            sl = node.slice
            lo = self.ev(sl.lower) if sl.lower is not None else None
            hi = self.ev(sl.upper) if sl.upper is not None else None
            step = self.ev(sl.step) if sl.step is not None else None
            return self.get_slice(obj, lo, hi, step, node)
        return self.get_item(obj, self.ev(node.slice), node)

    def norm_index(self, i, n):
        return z3.If(i < 0, i + n, i)

    def get_item(self, obj, idx, node):
        if isinstance(obj, Const):
            py = obj.py
            idx = self.val(idx)
            if isinstance(py, dict):
                keys = list(py)
                hit = z3.Or([self.py_eq(idx, lift(k)) for k in keys]) if keys else z3.BoolVal(False)
                if not self.spec_mode and not self.branch(hit):
                    raise PyExc('KeyError', self.snippet(node), implicit='key')
                if not all(liftable(py[k]) for k in keys):
                    for k in keys:
                        if self.branch(self.py_eq(idx, lift(k))):
                            return Const(py[k], '%s[%r]' % (obj.name, k))
                    raise PathEnd()
                r = None
                for k in reversed(keys):
                    v = self.const_val(py[k])
                    r = v if r is None else z3.If(self.py_eq(idx, lift(k)), v, r)
                if r is None:
                    raise PathEnd()
                return r
            if isinstance(py, (tuple, list)):
                n = len(py)
                i = self.as_int(idx)
                i2 = self.norm_index(i, n)
                if not self.spec_mode and not self.branch(z3.And(i2 >= 0, i2 < n)):
                    raise PyExc('IndexError', self.snippet(node), implicit='index')
                r = None
                for k in reversed(range(n)):
                    v = self.const_val(py[k])
                    r = v if r is None else z3.If(i2 == k, v, r)
                if r is None:
                    raise PathEnd()
                return z3.simplify(r)
            if isinstance(py, str):
                obj = lift(py)
            else:
                raise OutOfSubset('subscript of constant ' + repr(obj))
        obj = self.val(obj)
        t = static_tag(obj)
        if t is None and self.spec_mode:
            t = self.tagcache.get(obj.sexpr())       # a type already established on this path (parameter annotation, typed())
        if t is None and self.spec_mode:
            iv = z3.simplify(self.as_int(idx)) if (is_val(idx) and static_tag(idx) == 'VInt') else None
            t = 'VTup' if (iv is not None and z3.is_int_value(iv)) else 'VRef'
        if t is None:
            t = self.tag(obj)
        if t == 'VStr':
            s = Value.s(obj)
            n = z3.Length(s)
            i = self.as_int(idx)
            i2 = self.norm_index(i, n)
            if not self.spec_mode and not self.branch(z3.And(i2 >= 0, i2 < n)):
                raise PyExc('IndexError', self.snippet(node), implicit='index')
            return VStr(z3.SubString(s, i2, 1))
        if t == 'VTup':
            items = tup_items_static(obj)
            if items is None:
                if self.spec_mode:
                    iv = z3.simplify(self.as_int(idx))
                    if z3.is_int_value(iv) and iv.as_long() >= 0:
                        l = Value.t(obj)
                        for _ in range(iv.as_long()):
                            l = VList.tl(l)
                        return VList.hd(l)
                items = self.static_items(obj, node)
            n = len(items)
            i = z3.simplify(self.as_int(idx))
            i2 = z3.simplify(self.norm_index(i, n))
            if z3.is_int_value(i2):
                k = i2.as_long()
                if 0 <= k < n:
                    return items[k]
                if self.spec_mode:
                    return self.fresh('oob')
                raise PyExc('IndexError', self.snippet(node), implicit='index')
            if not self.spec_mode and not self.branch(z3.And(i2 >= 0, i2 < n)):
                raise PyExc('IndexError', self.snippet(node), implicit='index')
            r = None
            for k in reversed(range(n)):
                r = items[k] if r is None else z3.If(i2 == k, items[k], r)
            if r is None:
                raise PathEnd()
            return r
        if t == 'VRef':
            return self.ref_get_item(obj, self.val(idx), node)
        if not self.spec_mode:
            raise PyExc('TypeError', 'subscript of %s: %s' % (t, self.snippet(node)), implicit='type')
        return self.fresh('undef')      # specification terms are total: an ill-typed subterm denotes some value

    def const_val(self, py):
        if liftable(py):
            return lift(py)
        raise OutOfSubset('constant container holds non-liftable %r' % (type(py),))

    def get_slice(self, obj, lo, hi, step, node):
        if isinstance(obj, Const) and isinstance(obj.py, str):
            obj = lift(obj.py)
        obj = self.val(obj)
        t = static_tag(obj) or self.tag(obj)
        if t == 'VStr':
            if step is not None:
                raise OutOfSubset('string slice with step')
            s = Value.s(obj)
            n = z3.Length(s)

            def norm(x, dflt):
                if x is None:
                    return dflt
                if static_tag(self.val(x)) == 'VNone':
                    return dflt
                x = self.as_int(x)
                return z3.If(x < 0, z3.If(x + n < 0, z3.IntVal(0), x + n), z3.If(x > n, n, x))
            l2 = norm(lo, z3.IntVal(0))
            h2 = norm(hi, n)
            ln = z3.If(h2 - l2 < 0, z3.IntVal(0), h2 - l2)
            return VStr(z3.simplify(z3.SubString(s, l2, ln)))
        if t == 'VRef':
            return self.list_slice(obj, lo, hi, step, node)
        if t == 'VTup':
            items = self.static_items(obj, node)
            def c(x):
                if x is None:
                    return None
                x = z3.simplify(self.as_int(x))
                if not z3.is_int_value(x):
                    raise OutOfSubset('symbolic tuple slice')
                return x.as_long()
            return VTup(items[slice(c(lo), c(hi), c(step))])
        raise OutOfSubset('slice of ' + t)

    def str_repeat(self, s, n, node):
        ns = z3.simplify(n)
        if z3.is_int_value(ns):
            k = ns.as_long()
            r = z3.StringVal('')
            for _ in range(max(k, 0)):
                r = z3.Concat(r, s)
            return VStr(z3.simplify(r)) if k > 0 else VStr('')
        # symbolic repetition: uninterpreted with its defining length/boundary facts
        rep = z3.Function('str_repeat', S, I, S)
        r = rep(s, n)
        self.assume(z3.Implies(n <= 0, r == z3.StringVal('')))
        self.assume(z3.Implies(n > 0, r == z3.Concat(s, rep(s, n - 1))))
        self.assume(z3.Length(r) == z3.If(n > 0, n, 0) * z3.Length(s))
        return VStr(r)

    # ------------------------------------------------------------------ attributes
    def ex_Attribute(self, node):
        obj = self.ev(node.value)
        return self.get_attr(obj, node.attr, node)

    def ex_Starred(self, node):
        raise OutOfSubset('starred expression outside call/tuple')

    def ex_ListComp(self, node):
        return self.listcomp(node)

    def ex_GeneratorExp(self, node):
        raise OutOfSubset('generator expression outside all()/any()/sum(): ' + self.snippet(node))

    def ex_JoinedStr(self, node):
        raise OutOfSubset('f-string')
