"""z3 sorts used by the verifier: a universal boxed Python value and a Boogie-style heap."""
import z3

_V = z3.Datatype('Value')
_L = z3.Datatype('VList')
_V.declare('VNone')
_V.declare('VBool', ('b', z3.BoolSort()))
_V.declare('VInt', ('i', z3.IntSort()))
_V.declare('VNum', ('r', z3.RealSort()))      # finite float, modelled as exact rational
_V.declare('VInf')                             # float("inf")
_V.declare('VStr', ('s', z3.StringSort()))
_V.declare('VRef', ('a', z3.IntSort()))        # address of a mutable heap object
_V.declare('VTup', ('t', _L))                  # immutable tuple (cons list)
_L.declare('Nil')
_L.declare('Cons', ('hd', _V), ('tl', _L))
Value, VList = z3.CreateDatatypes(_V, _L)

I = z3.IntSort()
B = z3.BoolSort()
S = z3.StringSort()

VNone = Value.VNone
VInf = Value.VInf


def VInt(x):
    if isinstance(x, int):
        x = z3.IntVal(x)
    return Value.VInt(x)


def VBool(x):
    if isinstance(x, bool):
        x = z3.BoolVal(x)
    return Value.VBool(x)


def VStr(x):
    if isinstance(x, str):
        x = z3.StringVal(x)
    return Value.VStr(x)


def VNum(x):
    if isinstance(x, (int, float)):
        x = z3.RealVal(repr(x) if isinstance(x, float) else x)
    return Value.VNum(x)


def VRef(x):
    if isinstance(x, int):
        x = z3.IntVal(x)
    return Value.VRef(x)


def VTup(items):
    l = VList.Nil
    for it in reversed(list(items)):
        l = VList.Cons(it, l)
    return Value.VTup(l)


TAGS = ('VNone', 'VBool', 'VInt', 'VNum', 'VInf', 'VStr', 'VRef', 'VTup')


def is_tag(v, tag):
    return getattr(Value, 'is_' + tag)(v)


def static_tag(v):
    """Return the constructor name if v is syntactically a constructor application."""
    v = z3.simplify(v) if not z3.is_app(v) else v
    if z3.is_app(v):
        n = v.decl().name()
        if n in TAGS:
            return n
    v2 = z3.simplify(v)
    if z3.is_app(v2):
        n = v2.decl().name()
        if n in TAGS:
            return n
    return None


def tup_items_static(v):
    """If v is a VTup with a statically known spine, return the list of items, else None."""
    v = z3.simplify(v)
    if not (z3.is_app(v) and v.decl().name() == 'VTup'):
        return None
    l = v.arg(0)
    out = []
    while True:
        if not z3.is_app(l):
            return None
        n = l.decl().name()
        if n == 'Nil':
            return out
        if n != 'Cons':
            return None
        out.append(l.arg(0))
        l = l.arg(1)


ArrIV = z3.ArraySort(I, Value)            # per-attribute heap field / list item vector
ArrIArrIV = z3.ArraySort(I, ArrIV)        # list.items : addr -> (index -> Value)
ArrII = z3.ArraySort(I, I)                # list.len, dict.n, cls
ArrVB = z3.ArraySort(Value, B)
ArrVV = z3.ArraySort(Value, Value)
ArrIArrVB = z3.ArraySort(I, ArrVB)        # dict.has / set.has
ArrIArrVV = z3.ArraySort(I, ArrVV)        # dict.val


def field_sort(name):
    name = name.split('@')[0]
    if name in ('list.items', 'dict.keys', 'gen.items'):
        return ArrIArrIV
    if name in ('list.len', 'dict.n', 'cls', 'gen.pos', 'gen.n', 'gen.exc'):
        return ArrII
    if name in ('dict.has',):
        return ArrIArrVB
    if name in ('dict.val',):
        return ArrIArrVV
    return ArrIV   # 'attr:<name>'
