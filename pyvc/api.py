"""Names used in contract files.  Contract files are parsed, and (for runtime monitors) evaluated with these helpers."""


def contract(target, props=()):
    def deco(f):
        f._contract_target = target
        return f
    return deco


def spec(f):
    return f


def lemma(f=None, **kw):
    if f is None:
        return lambda g: g
    return f


def implies(a, b):
    return (not a) or bool(b)


def iff(a, b):
    return bool(a) == bool(b)


def div(a, b):
    return a // b


def mod(a, b):
    return a % b


def each(gen):
    return list(gen)
