"""Translation of the (small) subset of Python `re` syntax used by the library into z3 regular expressions.

Supported: literals, escapes (\\d \\\\ \\[ \\] \\. ...), character classes with ranges / escapes / negation is NOT
supported, groups ( ) and (?: ), quantifiers ? * + {m} {m,n}, alternation |, anchors ^ (first) and $ (last).
`\\d` is translated as ASCII [0-9]: contracts using a pattern with \\d require ASCII input (stated assumption).
parse(pattern) -> (items, anchored_start, anchored_end); items is the top-level sequence of (is_group, z3 Re).
"""
import z3


class RegexError(Exception):
    pass


def _ch(c):
    return z3.Re(z3.StringVal(c))


def _digit():
    return z3.Range('0', '9')


class _P:
    def __init__(self, s):
        self.s, self.i = s, 0

    def peek(self):
        return self.s[self.i] if self.i < len(self.s) else None

    def next(self):
        c = self.s[self.i]
        self.i += 1
        return c

    def parse_alt(self, top=False):
        seqs = [self.parse_seq(top)]
        while self.peek() == '|':
            self.next()
            seqs.append(self.parse_seq(False))
        if len(seqs) == 1:
            return seqs[0]
        return [(False, z3.Union(*[_concat([r for _, r in sq]) for sq in seqs]))]

    def parse_seq(self, top):
        items = []
        while self.peek() is not None and self.peek() not in '|)':
            is_group, atom = self.parse_atom()
            atom = self.parse_quant(atom)
            items.append((is_group, atom))
        return items

    def parse_quant(self, r):
        c = self.peek()
        if c == '?':
            self.next()
            return z3.Option(r)
        if c == '*':
            self.next()
            return z3.Star(r)
        if c == '+':
            self.next()
            return z3.Plus(r)
        if c == '{':
            j = self.s.index('}', self.i)
            body = self.s[self.i + 1:j]
            self.i = j + 1
            if ',' in body:
                lo, hi = body.split(',')
                lo, hi = int(lo or 0), int(hi)
            else:
                lo = hi = int(body)
            return z3.Loop(r, lo, hi)
        return r

    def parse_atom(self):
        c = self.next()
        if c == '(':
            is_group = True
            if self.s.startswith('?:', self.i):
                self.i += 2
                is_group = False
            inner = self.parse_alt()
            if self.next() != ')':
                raise RegexError('unbalanced group')
            return is_group, _concat([r for _, r in inner])
        if c == '[':
            return False, self.parse_class()
        if c == '\\':
            return False, self.parse_escape()
        if c == '.':
            raise RegexError('dot not supported')
        if c in '^$':
            raise RegexError('anchor inside pattern')
        return False, _ch(c)

    def parse_escape(self):
        c = self.next()
        if c == 'd':
            return _digit()
        if c in 'wsbBDWS':
            raise RegexError('escape \\%s not supported' % c)
        return _ch(c)

    def parse_class(self):
        negated = self.peek() == '^'
        if negated:
            self.next()
        parts = []
        first = True
        while True:
            c = self.next()
            if c == ']' and not first:
                break
            first = False
            if c == '\\':
                d = self.next()
                if d == 'd':
                    parts.append(_digit())
                    continue
                c = d
            if self.peek() == '-' and self.s[self.i + 1] != ']':
                self.next()
                hi = self.next()
                if hi == '\\':
                    hi = self.next()
                parts.append(z3.Range(c, hi))
            else:
                parts.append(_ch(c))
        r = parts[0] if len(parts) == 1 else z3.Union(*parts)
        if negated:
            # any ONE character outside the class (Python: newline included)
            r = z3.Intersect(z3.AllChar(z3.ReSort(z3.StringSort())), z3.Complement(r))
        return r


def _concat(rs):
    if not rs:
        return z3.Re(z3.StringVal(''))
    if len(rs) == 1:
        return rs[0]
    return z3.Concat(*rs)


def parse(pattern):
    s = pattern
    start = s.startswith('^')
    end = s.endswith('$') and not s.endswith('\\$')
    if start:
        s = s[1:]
    if end:
        s = s[:-1]
    p = _P(s)
    items = p.parse_alt(top=True)
    if p.i != len(s):
        raise RegexError('trailing input in pattern')
    return items, start, end


def full(pattern):
    items, start, end = parse(pattern)
    return _concat([r for _, r in items])
