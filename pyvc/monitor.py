"""Runtime monitors compiled from the same contract files (CPython cross-check of the contracts, counterexample replay).

A wrapper per contracted function checks the declared parameter types and `requires` on entry (a call outside the
contract's domain is counted as pre-miss and nothing is claimed for it), takes a snapshot of the heap reachable from
the arguments and the declared module globals, and on exit evaluates `ensures` / `raises(when=, unchanged=)` /
`ensures_on_raise` / `yields` with CPython.  `old(e)` is evaluated on the snapshot with the comprehension variables
bound at that point, and references found there are mapped back to the live objects, so that `x == old(y)` on
references is identity, as in the verifier.  Spec forms that cannot be observed at run time (fresh, allocated,
memo_clean: constant True; iter_pos/iter_item/...: the clause is skipped and listed) are under-approximations in
ensures position only.  `anyvalue()` ranges over every key of every dict reachable before or after the call: exact for
quantifiers guarded by a membership test, which is the only way the contracts use it.
Wrappers are installed by rebinding the name in every selfies.* namespace holding the function object (by identity),
evaluations are counted per clause.
"""
import ast
import collections
import copy
import enum
import functools
import importlib
import inspect
import re
import sys
import types

from . import api


class ContractViolation(Exception):
    def __init__(self, oid, kind, detail, call):
        super().__init__('%s [%s] %s' % (oid, kind, detail))
        self.oid, self.kind, self.detail, self.call = oid, kind, detail, call


class NotEvaluable(Exception):
    """The clause uses a ghost notion with no run-time counterpart."""


# ------------------------------------------------------------------------------------------ source transformation
def _comp_names(target):
    return [n.id for n in ast.walk(target) if isinstance(n, ast.Name)]


class _Runtime(ast.NodeTransformer):
    """Gives contract text its verifier meaning under CPython:
    implies(a, b) is lazy in b; == / != on containers and objects is identity (references), structural on tuples and
    values; p.pk_<kw> / p.pkhas_<kw> read the keywords of a functools.partial; old(E) in a clause becomes
    __old(k, {comprehension variables}); old(E) inside a spec function becomes __oldx(lambda v...: E, v...)."""

    def __init__(self, clause_level, params=()):
        self.clause_level = clause_level
        self.olds = []
        self.bound = []
        self.params = list(params)

    def _comp(self, node):
        pushed = 0
        for g in node.generators:
            g.iter = self.visit(g.iter)
            self.bound.append(_comp_names(g.target))
            pushed += 1
            g.ifs = [self.visit(c) for c in g.ifs]
        if isinstance(node, ast.DictComp):
            node.key = self.visit(node.key)
            node.value = self.visit(node.value)
        else:
            node.elt = self.visit(node.elt)
        for _ in range(pushed):
            self.bound.pop()
        return node

    visit_GeneratorExp = visit_ListComp = visit_SetComp = visit_DictComp = _comp

    def visit_FunctionDef(self, node):
        if self.clause_level:
            return node
        saved = self.params
        self.params = [a.arg for a in node.args.args]
        node.body = [self.visit(st) for st in node.body]
        self.params = saved
        return node

    def visit_Call(self, node):
        if isinstance(node.func, ast.Name) and node.func.id == 'old' and len(node.args) == 1:
            names = [n for b in self.bound for n in b]
            if self.clause_level:
                k = len(self.olds)
                inner = _Runtime(True)
                inner.no_old = True
                self.olds.append(inner.visit(copy.deepcopy(node.args[0])))
                binds = ast.Dict(keys=[ast.Constant(n) for n in names],
                                 values=[ast.Name(id=n, ctx=ast.Load()) for n in names])
                return ast.Call(func=ast.Name(id='__old', ctx=ast.Load()), args=[ast.Constant(k), binds], keywords=[])
            body = self.visit(node.args[0])
            used = {n.id for n in ast.walk(body) if isinstance(n, ast.Name)}
            vs = [n for n in dict.fromkeys(self.params + names) if n in used]
            lam = ast.Lambda(args=ast.arguments(posonlyargs=[], args=[ast.arg(arg=v) for v in vs], kwonlyargs=[],
                                                kw_defaults=[], defaults=[]), body=body)
            return ast.Call(func=ast.Name(id='__oldx', ctx=ast.Load()),
                            args=[lam] + [ast.Name(id=v, ctx=ast.Load()) for v in vs], keywords=[])
        self.generic_visit(node)
        if isinstance(node.func, ast.Name) and node.func.id == 'implies' and len(node.args) == 2:
            return ast.BoolOp(op=ast.Or(), values=[ast.UnaryOp(op=ast.Not(), operand=node.args[0]), node.args[1]])
        return node

    def visit_Compare(self, node):
        self.generic_visit(node)
        if not any(isinstance(o, (ast.Eq, ast.NotEq)) for o in node.ops):
            return node
        parts, left = [], node.left
        for op, right in zip(node.ops, node.comparators):
            if isinstance(op, ast.Eq):
                parts.append(ast.Call(func=ast.Name(id='__eq', ctx=ast.Load()), args=[left, right], keywords=[]))
            elif isinstance(op, ast.NotEq):
                parts.append(ast.UnaryOp(op=ast.Not(), operand=ast.Call(func=ast.Name(id='__eq', ctx=ast.Load()),
                                                                        args=[left, right], keywords=[])))
            else:
                parts.append(ast.Compare(left=left, ops=[op], comparators=[right]))
            left = right
        return parts[0] if len(parts) == 1 else ast.BoolOp(op=ast.And(), values=parts)

    def visit_Attribute(self, node):
        self.generic_visit(node)
        if isinstance(node.ctx, ast.Load) and node.attr.startswith('pkhas_'):
            return ast.Call(func=ast.Name(id='__pkhas', ctx=ast.Load()), args=[node.value, ast.Constant(node.attr[6:])],
                            keywords=[])
        if isinstance(node.ctx, ast.Load) and node.attr.startswith('pk_'):
            return ast.Call(func=ast.Name(id='__pk', ctx=ast.Load()), args=[node.value, ast.Constant(node.attr[3:])],
                            keywords=[])
        return node


def transform_module(tree):
    """contract file -> module whose spec functions evaluate with the verifier's meaning (see _Runtime)"""
    t = _Runtime(False).visit(tree)
    ast.fix_missing_locations(t)
    return t


def _compile(expr):
    e = ast.Expression(body=expr)
    ast.fix_missing_locations(e)
    return compile(e, '<contract>', 'eval')


def _rt(expr):
    return _compile(_Runtime(True).visit(copy.deepcopy(expr)))


def _with_olds(expr):
    col = _Runtime(True)
    body = col.visit(copy.deepcopy(expr))
    return _compile(body), [_compile(o) for o in col.olds]


# ------------------------------------------------------------------------------------------ heap snapshot
_ATOMS = (int, float, str, bytes, bool, type(None), type, types.FunctionType, types.BuiltinFunctionType,
          types.ModuleType, types.MethodType, re.Pattern, enum.Enum, functools.partial, BaseException, range,
          frozenset)


class Snapshot:
    def __init__(self, roots):
        self.memo = {}      # id(original) -> copy
        self.orig = {}      # id(original) -> original (kept alive)
        self.back = {}      # id(copy) -> original
        self.dicts = []     # original dict objects reachable at snapshot time
        self.copies = [self.cp(r) for r in roots]

    def _reg(self, x, c):
        self.memo[id(x)] = c
        self.orig[id(x)] = x
        self.back[id(c)] = x
        return c

    def cp(self, x):
        if isinstance(x, _ATOMS):
            return x
        i = id(x)
        if i in self.memo:
            return self.memo[i]
        if isinstance(x, list):
            c = self._reg(x, [])
            c.extend(self.cp(e) for e in x)
            return c
        if isinstance(x, collections.deque):
            c = self._reg(x, collections.deque())
            c.extend(self.cp(e) for e in x)
            return c
        if isinstance(x, dict):
            c = self._reg(x, {})
            self.dicts.append(x)
            for k, v in x.items():
                c[k] = self.cp(v)
            return c
        if isinstance(x, set):
            return self._reg(x, set(x))
        if isinstance(x, tuple):
            c = tuple(self.cp(e) for e in x)
            if all(a is b for a, b in zip(c, x)):
                return x
            return self._reg(x, c)
        mod = getattr(type(x), '__module__', '') or ''
        if mod.startswith('selfies') and hasattr(x, '__dict__'):
            try:
                c = object.__new__(type(x))
            except TypeError:
                return x
            self._reg(x, c)
            for k, v in vars(x).items():
                c.__dict__[k] = self.cp(v)
            return c
        return x        # iterators, generators, foreign objects: atomic

    def to_copy(self, v):
        return self.memo.get(id(v), v)

    def to_orig(self, v):
        if id(v) in self.back:
            return self.back[id(v)]
        if isinstance(v, tuple):
            return tuple(self.to_orig(e) for e in v)
        return v

    def same_state(self, obj):
        """contents of the container/object `obj` are what they were at snapshot time (references by identity)"""
        if id(obj) not in self.memo:
            raise NotEvaluable('object not present in the pre-state')
        c = self.memo[id(obj)]
        if isinstance(obj, dict):
            return list(obj.keys()) == list(c.keys()) and all(self.to_orig(c[k]) is obj[k] or self.to_orig(c[k]) == obj[k]
                                                               for k in obj)
        if isinstance(obj, (list, collections.deque)):
            return len(obj) == len(c) and all(self.to_orig(a) is b or self.to_orig(a) == b for a, b in zip(c, obj))
        if isinstance(obj, set):
            return obj == c
        if hasattr(obj, '__dict__'):
            return vars(obj).keys() == vars(c).keys() and all(
                self.to_orig(vars(c)[k]) is vars(obj)[k] or self.to_orig(vars(c)[k]) == vars(obj)[k] for k in vars(obj))
        return True

    def unchanged(self):
        """every container / object reachable at snapshot time has its snapshot contents"""
        for i, o in self.orig.items():
            if isinstance(o, tuple):
                continue
            if not self.same_state(o):
                return False, _safe_repr(o, 120)
        return True, None


def _dict_keys_reachable(roots, limit=20000):
    out, seen, todo = [], set(), list(roots)
    while todo and len(seen) < limit:
        x = todo.pop()
        if isinstance(x, _ATOMS) or id(x) in seen:
            continue
        seen.add(id(x))
        if isinstance(x, dict):
            out.extend(x.keys())
            todo.extend(x.values())
        elif isinstance(x, (list, tuple, set, collections.deque)):
            todo.extend(x)
        elif (getattr(type(x), '__module__', '') or '').startswith('selfies') and hasattr(x, '__dict__'):
            todo.extend(vars(x).values())
    return out


# ------------------------------------------------------------------------------------------ run-time spec forms
_CTX = [None]       # the call whose clauses are being evaluated (evaluation phases never nest)


def _ctx():
    c = _CTX[0]
    if c is None:
        raise NotEvaluable('no call context')
    return c


def _split_top(s, sep='|'):
    out, depth, cur = [], 0, ''
    for ch in s:
        if ch in '[(':
            depth += 1
        elif ch in '])':
            depth -= 1
        if ch == sep and depth == 0:
            out.append(cur)
            cur = ''
        else:
            cur += ch
    out.append(cur)
    return [x.strip() for x in out]


def typed(v, ty):
    ty = ty.strip().strip('\'"')
    alts = _split_top(ty, '|')
    if len(alts) > 1:
        return any(typed(v, t) for t in alts)
    if ty.startswith('Optional[') and ty.endswith(']'):
        return v is None or typed(v, ty[9:-1])
    if ty in ('any', 'Any', 'object'):
        return True
    if ty == 'int':
        return isinstance(v, int) and not isinstance(v, bool)
    if ty == 'nat':
        return isinstance(v, int) and not isinstance(v, bool) and v >= 0
    if ty == 'str':
        return isinstance(v, str)
    if ty == 'bool':
        return isinstance(v, bool)
    if ty in ('None', 'none'):
        return v is None
    if ty == 'num':
        return isinstance(v, (int, float)) and not isinstance(v, bool) and v not in (float('inf'), float('-inf'))
    if ty == 'float':
        return isinstance(v, float)
    if ty == 'tuple':
        return isinstance(v, tuple)
    if ty.startswith('tuple<='):
        return isinstance(v, tuple) and len(v) <= int(ty[7:])
    if ty.startswith('tuple[') and ty.endswith(']'):
        parts = _split_top(ty[6:-1], ',')
        return isinstance(v, tuple) and len(v) == len(parts) and all(typed(a, p) for a, p in zip(v, parts))
    if ty == 'list':
        return isinstance(v, list)
    if ty.startswith('list[') and ty.endswith(']'):
        return isinstance(v, list) and all(typed(a, ty[5:-1]) for a in v)
    if ty == 'dict':
        return isinstance(v, dict)
    if ty.startswith('dict[') and ty.endswith(']'):
        return isinstance(v, dict) and all(typed(k, ty[5:-1]) for k in v)
    if ty == 'set':
        return isinstance(v, set)
    if ty.startswith('iter[') or ty == 'gen':
        return hasattr(v, '__next__')
    if ty == 'ref':
        return v is not None and not isinstance(v, (int, float, str, bool, tuple))
    if ty == 'partial':
        return isinstance(v, functools.partial)
    return type(v).__name__ == ty


def _ref_like(x):
    return isinstance(x, (list, dict, set, collections.deque)) or (hasattr(x, '__dict__') and not isinstance(x, _ATOMS))


def _eq(a, b):
    """== of the contract language: identity on references, structural on tuples, value equality otherwise"""
    if _ref_like(a) or _ref_like(b):
        return a is b
    if isinstance(a, tuple) and isinstance(b, tuple):
        return len(a) == len(b) and all(_eq(x, y) for x, y in zip(a, b))
    return a == b


def _pk(p, name):
    return p.keywords.get(name)


def _pkhas(p, name):
    return name in p.keywords


def _fresh(x):
    """allocated during the call: not part of the pre-state reachable from the arguments and declared globals"""
    c = _ctx()
    if c.snap is None:
        raise NotEvaluable('fresh() before the snapshot')
    return (_ref_like(x) or isinstance(x, functools.partial)) and id(x) not in c.snap.orig


def _oldx(f, *vals):
    c = _ctx()
    if c.snap is None:
        raise NotEvaluable('old() before the snapshot')
    return c.snap.to_orig(f(*[c.snap.to_copy(v) for v in vals]))


def _not_evaluable(name):
    def f(*a, **k):
        raise NotEvaluable(name + ' has no run-time counterpart')
    return f


def _anyvalue():
    return list(_ctx().universe())


def _same_dict_state(d):
    return _ctx().snap.same_state(d)


def _dict_eq(a, b):
    return isinstance(a, dict) and isinstance(b, dict) and a == b


def _dict_key_at(d, j):
    ks = list(d.keys())
    if not 0 <= j < len(ks):
        raise NotEvaluable('dict_key_at outside the key vector')
    return ks[j]


def _re_fullmatch(pattern, s):
    if not isinstance(s, str):
        return False
    if isinstance(pattern, re.Pattern):
        return pattern.fullmatch(s) is not None
    return re.fullmatch(pattern, s) is not None


def _yielded_concat():
    items = _ctx().yielded
    if items is None:
        raise NotEvaluable('not a generator call')
    return ''.join(items)


def _yielded_count():
    items = _ctx().yielded
    if items is None:
        raise NotEvaluable('not a generator call')
    return len(items)


RUNTIME_HELPERS = {
    'typed': typed,
    'fresh': _fresh,
    'allocated': lambda x: True,
    '__eq': _eq, '__pk': _pk, '__pkhas': _pkhas, '__oldx': _oldx,
    'memo_clean': lambda name: True,   # staleness of an lru_cache entry is not observable at run time
    'anyvalue': _anyvalue,
    'same_dict_state': _same_dict_state,
    'dict_eq': _dict_eq,
    'dict_key_at': _dict_key_at,
    're_fullmatch': _re_fullmatch,
    'ascii_str': lambda s: isinstance(s, str) and s.isascii(),
    'inf': lambda: float('inf'),
    'yielded_concat': _yielded_concat,
    'yielded_count': _yielded_count,
    'iter_pos': _not_evaluable('iter_pos'), 'iter_len': _not_evaluable('iter_len'),
    'iter_exc': _not_evaluable('iter_exc'), 'iter_item': _not_evaluable('iter_item'),
    'old': _not_evaluable('old() inside a spec function'),
}


class _Call:
    """evaluation context of one monitored call"""

    def __init__(self, monitored, env, roots):
        self.m = monitored
        self.env = env
        self.roots = roots
        self.snap = None
        self.snap_env = None
        self.yielded = None
        self.result_roots = []
        self._universe = None

    def take_snapshot(self):
        names = list(self.roots.keys())
        self.snap = Snapshot([self.roots[n] for n in names])
        self.snap_env = dict(self.env)
        self.snap_env.update(dict(zip(names, self.snap.copies)))

    def universe(self):
        if self._universe is None:
            keys = []
            if self.snap is not None:
                for d in self.snap.dicts:
                    keys.extend(self.snap.memo[id(d)].keys())
            keys.extend(_dict_keys_reachable(list(self.roots.values()) + self.result_roots))
            out, seen = [], set()
            for k in keys:
                try:
                    if k not in seen:
                        seen.add(k)
                        out.append(k)
                except TypeError:
                    pass
            self._universe = out
        return self._universe

    def old(self, codes):
        def __old(k, binds):
            env = dict(self.snap_env)
            env.update({n: self.snap.to_copy(v) for n, v in binds.items()})
            return self.snap.to_orig(eval(codes[k], env))
        return __old


class Monitored:
    def __init__(self, contract, real, ns, monitors):
        self.c = contract
        self.real = real
        self.ns = ns
        self.monitors = monitors
        self.sig = inspect.signature(real)
        self.requires = [(cl, _rt(cl.expr)) for cl in contract.of('requires')]
        self.ensures = [(cl,) + _with_olds(cl.expr) for cl in contract.of('ensures')]
        self.on_raise = [(cl,) + _with_olds(cl.expr) for cl in contract.of('ensures_on_raise')]
        self.yields = [(cl, _rt(cl.expr)) for cl in contract.of('yields')]
        self.raises = [(cl, _rt(cl.expr) if cl.expr is not None else None) for cl in contract.of('raises')]
        self.ghosts = [cl.extra['name'] for cl in contract.of('ghost')]
        self.is_gen = inspect.isgeneratorfunction(real)
        self.global_names = monitors.globals_used(contract)
        used = monitors.names_used(contract)
        self.needs_snapshot = bool(used & {'old', 'fresh', 'same_dict_state', 'anyvalue'}) or any(
            cl.extra.get('unchanged') for cl in contract.of('raises'))

    def oid(self, tag):
        t = self.c.target
        mod = t.split('::')[0].replace('selfies/', '').replace('utils/', '').replace('.py', '')
        return '%s.%s:%s' % (mod, t.split('::')[1], tag)

    # -------------------------------------------------------------- phases
    def _enter(self, ba):
        """returns the call context, or None when the call is outside the contract's domain"""
        mon = self.monitors
        if self.ghosts:
            return None
        env = dict(self.ns)
        live = mon.refresh_globals()
        env.update(live)
        env.update(ba.arguments)
        roots = {k: v for k, v in live.items() if k in self.global_names}
        roots.update(ba.arguments)
        call = _Call(self, env, roots)
        _CTX[0] = call
        params = list(self.c.params)
        if self.c.vararg and self.c.vararg_ann:
            params.append((self.c.vararg, self.c.vararg_ann, None))
        for (name, ann, dflt) in params:
            if ann and name in ba.arguments:
                try:
                    if not typed(ba.arguments[name], ann):
                        mon.count(self.oid('pre-miss'))
                        return None
                except Exception as e:
                    mon.note_error(self.oid('pre'), e)
                    return None
        for cl, code in self.requires:
            try:
                ok = eval(code, env)
            except Exception as e:      # a requires that cannot be evaluated: nothing is claimed for this call
                mon.note_error(self.oid('pre'), e)
                return None
            if not ok:
                mon.count(self.oid('pre-miss'))
                return None
        if self.needs_snapshot:
            try:
                call.take_snapshot()
            except RecursionError:
                return None
        call.when = []
        for cl, code in self.raises:
            try:
                call.when.append(True if code is None else bool(eval(code, env)))
            except Exception as e:
                mon.note_error(self.oid('raises-when'), e)
                call.when.append(None)
        return call

    def _eval_posts(self, call, clauses, extra_env, kind):
        mon = self.monitors
        _CTX[0] = call
        call._universe = None
        env = call.env
        env.update(mon.refresh_globals())
        env.update(extra_env)
        for cl, code, ocodes in clauses:
            env['__old'] = call.old(ocodes)
            oid = self.oid(cl.tag or '%s@%d' % (kind, cl.line))
            try:
                ok = eval(code, env)
            except NotEvaluable as e:
                mon.note_error(oid, e)
                continue
            except Exception as e:
                mon.note_error(oid, e)
                continue
            mon.count(oid)
            if not ok:
                mon.violation(oid, kind, '%s false: %s' % (kind, ast.unparse(cl.expr)[:200]), call.desc, cl.props,
                              result=_safe_repr(extra_env.get('result')))

    def _on_exception(self, call, exc):
        mon = self.monitors
        allowed = [(i, cl) for i, (cl, code) in enumerate(self.raises) if _isa(exc, cl.extra['exc'])]
        tag = 'raises:%s' % type(exc).__name__
        mon.count(self.oid(tag))
        if not allowed:
            mon.violation(self.oid(tag), 'exc', 'undeclared %s: %s' % (type(exc).__name__, exc), call.desc, self.c.props)
            return
        if not any(call.when[i] in (True, None) for i, cl in allowed):
            mon.violation(self.oid(tag + ':when'), 'exc', '%s raised outside its declared condition' % type(exc).__name__,
                          call.desc, allowed[0][1].props)
        if any(cl.extra.get('unchanged') for i, cl in allowed):
            try:
                same, what = call.snap.unchanged()
                mon.count(self.oid(tag + ':unchanged'))
                if not same:
                    mon.violation(self.oid(tag + ':unchanged'), 'exc', 'state changed before %s was raised: %s'
                                  % (type(exc).__name__, what), call.desc, allowed[0][1].props)
            except NotEvaluable as e:
                mon.note_error(self.oid(tag + ':unchanged'), e)
        self._eval_posts(call, self.on_raise, {}, 'on-raise')

    # -------------------------------------------------------------- the wrapper
    def __call__(self, *args, **kwargs):
        mon = self.monitors
        if mon.depth_guard:
            return self.real(*args, **kwargs)
        try:
            ba = self.sig.bind(*args, **kwargs)
            ba.apply_defaults()
        except TypeError:
            return self.real(*args, **kwargs)
        mon.depth_guard += 1
        try:
            call = self._enter(ba)
            if call is not None:
                call.desc = (self.c.target, _safe_repr(ba.arguments))
        except RecursionError:
            call = None
        finally:
            mon.depth_guard -= 1
        if call is None:
            return self.real(*args, **kwargs)
        if self.is_gen:
            return self._generator(call, args, kwargs)
        try:
            result = self.real(*args, **kwargs)
        except Exception as exc:
            mon.depth_guard += 1
            try:
                self._on_exception(call, exc)
            finally:
                mon.depth_guard -= 1
            raise
        mon.depth_guard += 1
        try:
            call.result_roots = [result]
            self._eval_posts(call, self.ensures, {'result': result}, 'post')
        finally:
            mon.depth_guard -= 1
        return result

    def _generator(self, call, args, kwargs):
        mon = self.monitors
        call.yielded = []
        gen = self.real(*args, **kwargs)
        while True:
            try:
                item = next(gen)
            except StopIteration:
                break
            except Exception as exc:
                mon.depth_guard += 1
                try:
                    self._on_exception(call, exc)
                finally:
                    mon.depth_guard -= 1
                raise
            mon.depth_guard += 1
            try:
                _CTX[0] = call
                env = call.env
                env['item'] = item
                for cl, code in self.yields:
                    oid = self.oid(cl.tag or 'yields@%d' % cl.line)
                    try:
                        ok = eval(code, env)
                    except Exception as e:
                        mon.note_error(oid, e)
                        continue
                    mon.count(oid)
                    if not ok:
                        mon.violation(oid, 'yield', 'yielded item %r: %s false' % (item, ast.unparse(cl.expr)[:160]),
                                      call.desc, cl.props)
                if isinstance(item, str) and call.yielded is not None:
                    call.yielded.append(item)
                else:
                    call.yielded = None     # yielded_concat()/yielded_count() are defined for str items
            finally:
                mon.depth_guard -= 1
            yield item
        mon.depth_guard += 1
        try:
            self._eval_posts(call, self.ensures, {'result': None}, 'post')
        finally:
            mon.depth_guard -= 1


def _isa(exc, name):
    return any(k.__name__ == name for k in type(exc).__mro__)


def _safe_repr(x, limit=400):
    try:
        r = repr(x)
    except Exception:
        r = '<unrepr>'
    return r if len(r) <= limit else r[:limit] + '...'


class Monitors:
    def __init__(self, contracts, contract_modules, globals_decl=None, specs=None):
        """contracts: list of Contract; contract_modules: {path: imported python module of the contract file}"""
        self.specs = specs or {}
        self.counts = {}
        self.violations = []
        self.errors = {}
        self.depth_guard = 0
        self.installed = []
        self.wrappers = {}
        self.contracts = contracts
        self.cmods = contract_modules
        self.raise_on_violation = False
        self.max_violations = 200
        self.globals_decl = dict(globals_decl or {})
        for m in self.cmods.values():
            g = getattr(m, 'GLOBALS', None)
            if isinstance(g, dict):
                self.globals_decl.update(g)
        # spec functions and constants of every contract file are visible in every other one (as for the verifier)
        shared = {}
        for m in self.cmods.values():
            for k, v in vars(m).items():
                if not k.startswith('__') and k not in RUNTIME_HELPERS and k not in vars(api):
                    shared.setdefault(k, v)
        for m in self.cmods.values():
            for k, v in shared.items():
                m.__dict__.setdefault(k, v)
            m.__dict__.update(RUNTIME_HELPERS)

    def globals_used(self, contract):
        """declared module globals named by the contract's clauses or by a spec function they reach: only these are
        part of the snapshot taken at each call"""
        gl = {k.split('::')[1] for k in self.globals_decl}
        return self.names_used(contract) & gl

    def names_used(self, contract):
        names, seen, todo = set(), set(), []
        for cl in contract.clauses:
            for e in [cl.expr] + list(cl.extra.get('exprs', [])):
                if isinstance(e, ast.AST):
                    todo.append(e)
        while todo:
            e = todo.pop()
            for n in ast.walk(e):
                if isinstance(n, ast.Name):
                    names.add(n.id)
                    sp = self.specs.get(n.id)
                    if sp is not None and n.id not in seen:
                        seen.add(n.id)
                        node = getattr(sp, 'node', None)
                        if node is not None:
                            todo.append(node)
        return names

    def count(self, oid):
        self.counts[oid] = self.counts.get(oid, 0) + 1

    def note_error(self, oid, e):
        self.errors.setdefault(oid, _safe_repr(e, 200))

    def violation(self, oid, kind, detail, call, props, **kw):
        v = {'oid': oid, 'kind': kind, 'detail': detail, 'call': call, 'props': list(props)}
        v.update(kw)
        if len(self.violations) < self.max_violations:
            self.violations.append(v)
        if self.raise_on_violation:
            raise ContractViolation(oid, kind, detail, call)

    def refresh_globals(self):
        """live values of the declared module globals (they are rebound by the code under test)"""
        live = {}
        for key in self.globals_decl:
            rel, name = key.split('::')
            mod = sys.modules.get(rel[:-3].replace('/', '.'))
            if mod is not None and hasattr(mod, name):
                live[name] = getattr(mod, name)
        for m in self.cmods.values():
            m.__dict__.update(live)
        return live

    def runtime_ns(self, c):
        ns = {}
        ns.update({k: getattr(api, k) for k in dir(api) if not k.startswith('_')})
        m = self.cmods.get(c.file)
        if m is not None:
            ns.update({k: v for k, v in vars(m).items() if not k.startswith('__')})
        ns.update(RUNTIME_HELPERS)
        return ns

    def install(self, only=None):
        import selfies  # noqa
        mods = [m for n, m in sys.modules.items() if n == 'selfies' or n.startswith('selfies.')]
        for c in self.contracts:
            if c.kind != 'contract' or not c.target:
                continue
            if only is not None and c.target not in only:
                continue
            rel, qual = c.target.split('::')
            mod = importlib.import_module(rel[:-3].replace('/', '.'))
            ns = self.runtime_ns(c)
            ns.update(vars(mod))
            ns.update(RUNTIME_HELPERS)
            if '.' in qual:
                cname, mname = qual.split('.')
                cls = getattr(mod, cname)
                real = cls.__dict__.get(mname)
                if not isinstance(real, types.FunctionType):
                    continue
                w = Monitored(c, real, ns, self)
                fw = _as_function(w, real)
                setattr(cls, mname, fw)
                self.installed.append((cls, mname, real))
                self.wrappers[c.target] = w
                continue
            real = getattr(mod, qual, None)
            if real is None:
                continue
            w = Monitored(c, real, ns, self)
            fw = _as_function(w, real)
            for m in mods:
                for k, v in list(vars(m).items()):
                    if v is real:
                        setattr(m, k, fw)
                        self.installed.append((m, k, real))
            self.wrappers[c.target] = w

    def uninstall(self):
        for owner, name, real in reversed(self.installed):
            setattr(owner, name, real)
        self.installed = []


def _as_function(w, real):
    if w.is_gen:
        @functools.wraps(real)
        def wrapper(*a, **k):
            r = w(*a, **k)
            return r
    else:
        @functools.wraps(real)
        def wrapper(*a, **k):
            return w(*a, **k)
    for attr in ('cache_clear', 'cache_info'):
        if hasattr(real, attr):
            setattr(wrapper, attr, getattr(real, attr))
    wrapper._monitor = w
    return wrapper
