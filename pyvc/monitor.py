"""Runtime monitors compiled from the same contract files (bounded stand-ins and counterexample replay).

A wrapper per contracted function evaluates `requires` on entry, snapshots old(...), evaluates `ensures` and the
`raises` clauses on exit.  Wrappers are installed by rebinding the name in every selfies.* namespace holding the
function object (by identity), evaluations are counted per clause.
"""
import ast
import copy
import functools
import importlib
import inspect
import sys
import types

from . import api


class ContractViolation(Exception):
    def __init__(self, oid, kind, detail, call):
        super().__init__('%s [%s] %s' % (oid, kind, detail))
        self.oid, self.kind, self.detail, self.call = oid, kind, detail, call


class _OldCollector(ast.NodeTransformer):
    def __init__(self):
        self.olds = []

    def visit_Call(self, node):
        if isinstance(node.func, ast.Name) and node.func.id == 'old':
            k = len(self.olds)
            self.olds.append(node.args[0])
            return ast.Subscript(value=ast.Name(id='__old', ctx=ast.Load()), slice=ast.Constant(k), ctx=ast.Load())
        self.generic_visit(node)
        return node


def _compile(expr):
    e = ast.Expression(body=expr)
    ast.fix_missing_locations(e)
    return compile(e, '<contract>', 'eval')


class Monitored:
    def __init__(self, contract, real, ns, monitors):
        self.c = contract
        self.real = real
        self.ns = ns
        self.monitors = monitors
        self.sig = inspect.signature(real)
        self.requires = [(cl, _compile(cl.expr)) for cl in contract.of('requires')]
        self.ensures = []
        for cl in contract.of('ensures'):
            col = _OldCollector()
            body = col.visit(copy.deepcopy(cl.expr))
            ast.fix_missing_locations(body)
            try:
                self.ensures.append((cl, _compile(body), [_compile(o) for o in col.olds]))
            except Exception:
                pass
        self.raises = [(cl, _compile(cl.expr) if cl.expr is not None else None) for cl in contract.of('raises')]
        self.ghosts = [cl.extra['name'] for cl in contract.of('ghost')]

    def oid(self, tag):
        t = self.c.target
        mod = t.split('::')[0].replace('selfies/', '').replace('utils/', '').replace('.py', '')
        return '%s.%s:%s' % (mod, t.split('::')[1], tag)

    def __call__(self, *args, **kwargs):
        mon = self.monitors
        if mon.depth_guard:
            return self.real(*args, **kwargs)
        try:
            ba = self.sig.bind(*args, **kwargs)
            ba.apply_defaults()
        except TypeError:
            return self.real(*args, **kwargs)
        env = dict(self.ns)
        env.update(ba.arguments)
        call = (self.c.target, _safe_repr(ba.arguments))
        skip = bool(self.ghosts)
        mon.depth_guard += 1
        try:
            if not skip:
                for cl, code in self.requires:
                    try:
                        ok = eval(code, env)
                    except Exception as e:      # a requires that cannot be evaluated is not counted
                        mon.note_error(self.oid('pre'), e)
                        skip = True
                        break
                    if not ok:
                        skip = True   # outside the contract's domain: nothing is claimed for this call
                        mon.count(self.oid('pre-miss'))
                        break
            olds = []
            if not skip:
                for cl, code, ocodes in self.ensures:
                    vals = []
                    for oc in ocodes:
                        try:
                            vals.append(copy.deepcopy(eval(oc, env)))
                        except Exception as e:
                            vals.append(e)
                    olds.append(vals)
        finally:
            mon.depth_guard -= 1
        try:
            result = self.real(*args, **kwargs)
        except Exception as exc:
            if skip:
                raise
            mon.depth_guard += 1
            try:
                allowed = [(cl, code) for cl, code in self.raises if _isa(exc, cl.extra['exc'])]
                tag = 'raises:%s' % type(exc).__name__
                mon.count(self.oid(tag))
                if not allowed:
                    mon.violation(self.oid(tag), 'exc', 'undeclared %s: %s' % (type(exc).__name__, exc), call,
                                  self.c.props)
                else:
                    ok = False
                    for cl, code in allowed:
                        try:
                            if code is None or eval(code, env):
                                ok = True
                        except Exception as e:
                            mon.note_error(self.oid(tag), e)
                            ok = True
                    if not ok:
                        mon.violation(self.oid(tag + ':when'), 'exc',
                                      '%s raised outside its declared condition' % type(exc).__name__, call,
                                      allowed[0][0].props)
            finally:
                mon.depth_guard -= 1
            raise
        if skip:
            return result
        mon.depth_guard += 1
        try:
            env['result'] = result
            for (cl, code, _), vals in zip(self.ensures, olds):
                env['__old'] = vals
                oid = self.oid(cl.tag or 'post@%d' % cl.line)
                try:
                    ok = eval(code, env)
                except Exception as e:
                    mon.note_error(oid, e)
                    continue
                mon.count(oid)
                if not ok:
                    mon.violation(oid, 'post', 'postcondition false: %s' % ast.unparse(cl.expr)[:200], call, cl.props,
                                  result=_safe_repr(result))
        finally:
            mon.depth_guard -= 1
        return result


def _isa(exc, name):
    return any(k.__name__ == name for k in type(exc).__mro__)


def _safe_repr(x, limit=400):
    try:
        r = repr(x)
    except Exception:
        r = '<unrepr>'
    return r if len(r) <= limit else r[:limit] + '...'


class Monitors:
    def __init__(self, contracts, contract_modules):
        """contracts: list of Contract; contract_modules: {path: imported python module of the contract file}"""
        self.counts = {}
        self.violations = []
        self.errors = {}
        self.depth_guard = 0
        self.installed = []
        self.wrappers = {}
        self.contracts = contracts
        self.cmods = contract_modules
        self.raise_on_violation = False

    def count(self, oid):
        self.counts[oid] = self.counts.get(oid, 0) + 1

    def note_error(self, oid, e):
        self.errors.setdefault(oid, _safe_repr(e, 200))

    def violation(self, oid, kind, detail, call, props, **kw):
        v = {'oid': oid, 'kind': kind, 'detail': detail, 'call': call, 'props': list(props)}
        v.update(kw)
        self.violations.append(v)
        if self.raise_on_violation:
            raise ContractViolation(oid, kind, detail, call)

    def runtime_ns(self, c):
        ns = {}
        ns.update({k: getattr(api, k) for k in dir(api) if not k.startswith('_')})
        ns.update(RUNTIME_HELPERS)
        m = self.cmods.get(c.file)
        if m is not None:
            ns.update({k: v for k, v in vars(m).items() if not k.startswith('__')})
        return ns

    def install(self, only=None):
        import selfies  # noqa
        mods = [m for n, m in sys.modules.items() if n == 'selfies' or n.startswith('selfies.')]
        for c in self.contracts:
            if c.kind != 'contract' or not c.target:
                continue
            if only is not None and c.target not in only:
                continue
            rel, qual = c.target.split('::')
            mod = importlib.import_module(rel[:-3].replace('/', '.'))
            ns = self.runtime_ns(c)
            ns.update(vars(mod))
            if '.' in qual:
                cname, mname = qual.split('.')
                cls = getattr(mod, cname)
                real = cls.__dict__.get(mname)
                if not isinstance(real, types.FunctionType):
                    continue
                w = Monitored(c, real, ns, self)
                fw = _as_function(w, real)
                setattr(cls, mname, fw)
                self.installed.append((cls, mname, real))
                self.wrappers[c.target] = w
                continue
            real = getattr(mod, qual, None)
            if real is None:
                continue
            base = getattr(real, '__wrapped__', None)
            w = Monitored(c, real, ns, self)
            fw = _as_function(w, real)
            for m in mods:
                for k, v in list(vars(m).items()):
                    if v is real:
                        setattr(m, k, fw)
                        self.installed.append((m, k, real))
            self.wrappers[c.target] = w

    def uninstall(self):
        for owner, name, real in reversed(self.installed):
            setattr(owner, name, real)
        self.installed = []


def _as_function(w, real):
    @functools.wraps(real)
    def wrapper(*a, **k):
        return w(*a, **k)
    for attr in ('cache_clear', 'cache_info'):
        if hasattr(real, attr):
            setattr(wrapper, attr, getattr(real, attr))
    wrapper._monitor = w
    return wrapper


def typed(v, ty):
    ty = ty.strip()
    if '|' in ty:
        return any(typed(v, t) for t in ty.split('|'))
    if ty in ('any', 'Any', 'object'):
        return True
    if ty == 'int':
        return isinstance(v, int) and not isinstance(v, bool)
    if ty == 'nat':
        return isinstance(v, int) and v >= 0
    if ty == 'str':
        return isinstance(v, str)
    if ty == 'bool':
        return isinstance(v, bool)
    if ty in ('None', 'none'):
        return v is None
    if ty == 'num':
        return isinstance(v, (int, float))
    if ty == 'float':
        return isinstance(v, float)
    if ty == 'tuple':
        return isinstance(v, tuple)
    if ty.startswith('tuple<='):
        return isinstance(v, tuple) and len(v) <= int(ty[7:])
    if ty == 'list':
        return isinstance(v, list)
    if ty == 'dict':
        return isinstance(v, dict)
    if ty == 'set':
        return isinstance(v, set)
    if ty == 'ref':
        return v is not None
    return type(v).__name__ == ty


RUNTIME_HELPERS = {
    'typed': typed,
    'fresh': lambda x: True,        # allocation freshness is a static notion; not observable at run time
    'allocated': lambda x: True,
}
