"""Self-test of the SMILES oracles (reader + spelling generators).

Run:  /venv/bin/python /verif/spec/test_smiles_oracle.py
RDKit is used here (and only here) as an outside referee.
"""
import itertools
import os
import random
import re
import sys

sys.path.insert(0, os.path.dirname(os.path.abspath(__file__)))
from smiles_reader import (read_smiles, SmilesSyntaxError, stereo_parity,    # noqa: E402
                           double_bond_config, same_molecule, bond_order_sum)
from smiles_writer import (respell_same_order, random_traversal, spellings,  # noqa: E402
                           LABEL_POLICIES, RING_SIDES)
from rdkit import Chem, RDLogger                                             # noqa: E402

RDLogger.DisableLog("rdApp.*")

BASE = r"""
C CC C=C C#N CCO CC(=O)O C(C)(C)(C)C ClCCBr BrC(F)(I)Cl B(O)O OP(=O)(O)O CS(=O)(=O)C N#N
[H][H] [2H]O[2H] [13CH4] [13C] [OH-] [NH4+] [Na+].[Cl-] [Fe++] [Fe+2] [Fe+++] [O--] [O-2]
[Cu+2].[O-]S(=O)(=O)[O-] C[N+](C)(C)C [N+](=O)([O-])C C[N+1](=O)[O-1] [CH3][CH2][OH]
[CH1](C)(C)C [C] [CH0] [235U] [Se]=O [SiH4] C[Si](C)(C)C C(C)(C) CC(C) C(C(C(C)))
C-C C-C=C-C [CH3:1][OH:2] [C:12] ClC(Cl)(Cl)Cl FS(F)(F)(F)(F)F O=Cl(=O)(=O)[O-] OI(=O)=O
c1ccccc1 c1ccccc1C Cc1ccccc1 c1ccc2ccccc2c1 c1cc[nH]c1 c1ccncc1 c1ccoc1 c1ccsc1
c1ccc(cc1)-c1ccccc1 c1ccccc1-c1ccccc1 c1cc[se]c1 [se]1cccc1 n1ccccc1 O=c1cc[nH]cc1
c1ccc2[nH]ccc2c1 [nH]1cccc1 c1cnc[nH]1 C1=CC=CC=C1 c:1:c:c:c:c:c1 C[n+]1ccccc1
Cn1cnc2c1c(=O)n(C)c(=O)n2C c1ccc2c(c1)[nH]c1ccccc12 [te]1cccc1 [as]1ccccc1 [si]1ccccc1
c1ccccc1.Cl [O-][n+]1ccccc1 c1cc[nH+]cc1 [14cH]1ccccc1 c1ccc(cc1)C(=O)O b1ccccc1 p1ccccc1
Oc1ccc(cc1)/C=C/c1cc(O)cc(O)c1 CC(=O)Oc1ccccc1C(=O)O c1ccc2c(c1)ccc1ccccc12
C1CC1 C1CCCCC1 C1CC1C1CC1 C12CC1C2 C1CCC11CC1 C0CC0 C%10CC%10 C%12CCCCC%12 C=1CCCCC=1
C=1CCCCC1 C1CCCCC=1 C1=CCCCC1 C1CC2CCC1C2 C12(CCCC1)CCCC2 C12C3C4C1C5C2C3C45
C1C2CC3CC1CC(C2)C3 C(C)1CC1 C1.C1 C-1CC-1 C1CC-1 C%11CC%11%12CC%12 C1CC1.C1CC1 C1CC1.C2CC2
C2CC2C1CC1 C1CC#CCCCC1 C%99CC%99 C0CC0C0CC0
N[C@@H](C)C(=O)O N[C@H](C)C(=O)O [C@H](N)(C)C(=O)O [C@@](F)(Cl)(Br)I F[C@](Cl)(Br)I
C[C@H]1CCCCO1 [C@H]1(C)CCCCO1 O[C@H]1CCCC[C@@H]1C [C@@H]1(O)CCCC[C@@H]1C
C[C@]12CCCC[C@@]1(O)CCC2 OC[C@H]1O[C@@H](O)[C@H](O)[C@@H](O)[C@@H]1O C[C@H](O)[C@@H](N)C(=O)O
C[C@H](CCCC(C)C)[C@H]1CC[C@@H]2[C@@]1(CC[C@H]3[C@H]2CC=C4[C@@]3(CC[C@@H](C4)O)C)C
N1[C@H](C(=O)O)CCC1 C[S@](=O)CC C[S@@](=O)c1ccccc1 [S@](=O)(C)CC C[P@](=O)(O)c1ccccc1
C[N@+](CC)(CCC)CCCC C[Si@](F)(Cl)Br [C@@H]12CCC[C@H]1CCCC2 C1CC2CCC[C@]12C C1CC[C@]2(C1)CCCO2
C[C@](F)1CCCCO1 [C@H](F)(Cl)Br [C@@H](Br)(Cl)F Br[C@H](Cl)F [C@H]([2H])(C)O C[C@H]([2H])O
C[C@H]1C[C@@H]1C O=C1CC[C@@H]2[C@H]1CCC2 C[C@@H]1CC[C@H](CC1)O [C@@]12(C)CCC[C@@H]1CCC2
C[C@H]1CC[C@@]12CCCO2 N[C@@]1(C)CC[C@H](C)C1 [C@]1(F)(Cl)CCCCO1 O1CCCC[C@@]1(F)C
CC[C@@H](C)[C@H](N)C(=O)O C[C@@H](c1ccccc1)N C[C@H](N)c1ccc[nH]1 [NH3+][C@@H](C)C(=O)[O-]
[C@H]1(O)[C@@H](O)[C@H](O)[C@@H]1C C[C@@H]1O[C@@H]1C [C@@]12(C)CCC[C@@H]1CCCC2 [13C@H](N)(C)O C[C@@H](O)[13CH3]
F/C=C/F F/C=C\F F\C=C/F F\C=C\F C(/F)=C/F C(\F)=C/F C(/F)=C\F F/C=C(/Cl)Br F/C(Cl)=C/Br
C/C=C/C=C/C C/C=C\C=C/C CC/C=C/C(=O)O C/C=C/c1ccccc1 F/C(/Cl)=C/Br C/C(F)=C(/Cl)Br
F/C=C/1CCCCC1O F/C=C1/CCCCC1O F/C=C1CCCCC/1O F/C=C1CCCCC\1O F/C=C/1CCCCC\1O
C1CCCCCCC/C=C/1 C/1=C/CCCCCCCC1 C\1=C/CCCCCCCC1 C1CCCCCCC/C=C\1 C(/[O-])=C/[NH3+]
C/C=N/O C/C=N\O F/C=C/C=C/F F/C=C/C=C\F C\C(=C/Cl)\C=C\F C(=C/F)/Cl C(=C\F)/Cl
F/C=C/F.F/C=C\F N[C@@H](C)C(=O)[O-].[Na+] C/C=C/[C@H](C)O C/C=C\[C@@H](C)O
O=C(O)/C=C/C(=O)O O=C(O)/C=C\C(=O)O CC/C=C\C/C=C\CC C/C(=C\c1ccccc1)/C(=O)O
[Na+].[Cl-] CC.O [NH4+].[NH4+].[O-]S(=O)(=O)[O-] C.C.C [K+].[O-]C(=O)c1ccccc1
C[O+](C)C N=[N+]=[N-] [C-]#[O+] [Cl-] [Ca+2] [Al+3] [Al+++] [S--] [S-2]
N#C[Fe-3](C#N)(C#N)(C#N)(C#N)C#N [Co+3] [18O]=C=[18O] [3H]C [11CH3]O [99Tc] [U+6]
[NH2-] [CH3-] [CH3+] [BH4-] [B-](F)(F)(F)F [PH4+] [SH-] [IH2+] [Mg++].[Br-].[Br-] [Zn+2]
"""
BASE = BASE.split()

SYNTAX_ERRORS = r"""
C..C .C C. C( C) (C) C(C C(C)) C() C(()C) C((C))C =C C= C==C C=(C) C(=)C C-.C C=) C(=)
C1CC C1CC2 C11 C1C1 C12CC12 C=1CC-1 C=1CC#1 C/1CC=1 C-1CC/1 C%1CC%1 C% C%1 C%(10)CC%(10)
1CC1 C.1CC1 C(1CC1) C(=1CC1) C* * C$C Q CX C!C [C@TH1](F)(Cl)(Br)I [C@@@](F)(Cl)(Br)I
[C@SP1](F)(Cl)(Br)I [C C] [] [12] [Xx] [CH2 [C+-] [C++2] [C:] [CC] [cl] [C@H2+1:1x] H Si
c1ccccc1% C(.C)C [*] [C[C]] [CH-H] [+C] [C@@H@] C1CC1) ((C)) -C /C=C/C C%1a C%a1
"""
SYNTAX_ERRORS = SYNTAX_ERRORS.split() + ["", "C C", " C", "C\n", "C١CC١"]

# valid for the reader although RDKit disagrees or is not asked
VALID_EXTRA = ["C1CCCCC%01", "C%00CC%00", "C%123CC3C%12", "[C:0]", "[CH4:007]",
               "[C@@H](F)(Cl)Br", "[238U+6]", "C(C)(C)(C)(C)(C)C", "[Og]",
               "F/C=C/1CCCCC/1O", "C[H]", "[HH]", "[H+]", "[nH]1cccc1", "c:c"]

# stereo molecules with a non-trivial symmetry: RDKit may (correctly) write
# them with all tags flipped under its own atom mapping, so they are left out
# of the per-atom comparison on RDKit-written spellings
SYMMETRIC = {"C[C@@H]1CC[C@H](CC1)O", "[C@@]12(C)CCC[C@@H]1CCC2",
             "[C@H]1(O)[C@@H](O)[C@H](O)[C@@H]1C"}

FAILS = []
COUNTS = {}


def check(cond, group, msg):
    COUNTS[group] = COUNTS.get(group, 0) + 1
    if not cond:
        FAILS.append("%s: %s" % (group, msg))
    return cond


def rd_mol(s, sanitize):
    # RDKit does not read charges written with three or more signs: [Al+++]
    s = re.sub(r"([+-])\1{2,}", lambda m: "%s%d" % (m.group(1), len(m.group(0))), s)
    p = Chem.SmilesParserParams()
    p.removeHs = False
    p.sanitize = sanitize
    return Chem.MolFromSmiles(s, p)


def rd_canonical(s):
    """Canonical isomeric SMILES; sanitized where possible."""
    m = rd_mol(s, True)
    if m is None:
        m = rd_mol(s, False)
        if m is None:
            return None
        m.UpdatePropertyCache(strict=False)
        Chem.AssignStereochemistry(m, cleanIt=True, force=True)
    return Chem.MolToSmiles(m)


# ---------------------------------------------------------------- (a) graph
def compare_with_rdkit(s):
    g = "a:graph-vs-rdkit"
    try:
        m = read_smiles(s)
    except SmilesSyntaxError as e:
        return check(False, g, "%r rejected by reader: %s" % (s, e.reason))
    rd = rd_mol(s, False)
    if not check(rd is not None, g, "%r rejected by RDKit" % s):
        return False
    if not check(rd.GetNumAtoms() == len(m.atoms), g, "%r atom count" % s):
        return False
    ok = True
    for a, r in zip(m.atoms, rd.GetAtoms()):
        mine = (a.element, a.charge, a.isotope or 0, a.aromatic, a.atom_class or 0)
        theirs = (r.GetSymbol(), r.GetFormalCharge(), r.GetIsotope(), r.GetIsAromatic(),
                  r.GetAtomMapNum())
        ok &= check(mine == theirs, g, "%r atom %d %r != %r" % (s, a.index, mine, theirs))
        if a.bracket:
            ok &= check(a.hcount == r.GetNumExplicitHs() and r.GetNoImplicit(), g,
                        "%r atom %d hcount %r" % (s, a.index, a.hcount))
        else:
            ok &= check(a.hcount is None and not r.GetNoImplicit(), g,
                        "%r atom %d should have implicit H" % (s, a.index))
    rb = {tuple(sorted((b.GetBeginAtomIdx(), b.GetEndAtomIdx()))): b.GetBondTypeAsDouble()
          for b in rd.GetBonds()}
    ok &= check(rb == m.bonds, g, "%r bonds %r != %r" % (s, m.bonds, rb))
    for i in range(len(m.atoms)):
        ok &= check(sorted(m.adjacent(i)) == sorted(
            n.GetIdx() for n in rd.GetAtomWithIdx(i).GetNeighbors()), g, "%r adjacency" % s)
        ok &= check(bond_order_sum(m, i) == sum(
            b.GetBondTypeAsDouble() for b in rd.GetAtomWithIdx(i).GetBonds()), g,
            "%r bond order sum at %d" % (s, i))
    ok &= check(sorted(sum(m.fragments, [])) == list(range(len(m.atoms))), g, "%r fragments" % s)
    ok &= check(len(m.fragments) == s.count(".") + 1, g, "%r fragment count" % s)
    return ok


# ------------------------------------------------- (b) writers keep the molecule
def invariants(m):
    return ([stereo_parity(m, i) for i in range(len(m.atoms))], double_bond_config(m))


def check_same_order(s, rnd, **style):
    g = "b:respell_same_order"
    m = read_smiles(s)
    t = respell_same_order(s, rnd, **style)
    try:
        m2 = read_smiles(t)
    except SmilesSyntaxError as e:
        return check(False, g, "%r -> %r unreadable: %s" % (s, t, e.reason)), t
    same, why = same_molecule(m, m2, check_aromatic=True)
    ok = check(same, g, "%r -> %r: %s" % (s, t, why))
    ok &= check(invariants(m) == invariants(m2), g, "%r -> %r stereo changed" % (s, t))
    ok &= check([a.prev for a in m.atoms] == [a.prev for a in m2.atoms], g,
                "%r -> %r tree changed" % (s, t))
    ok &= check(rd_canonical(s) == rd_canonical(t), "b:rdkit-canonical",
                "%r -> %r : %r != %r" % (s, t, rd_canonical(s), rd_canonical(t)))
    return ok, t


def check_traversal(s, rnd, **style):
    g = "b:random_traversal"
    m = read_smiles(s)
    t, perm = random_traversal(m, rnd, **style)
    try:
        m2 = read_smiles(t)
    except SmilesSyntaxError as e:
        return check(False, g, "%r -> %r unreadable: %s" % (s, t, e.reason)), t
    same, why = same_molecule(m, m2, check_aromatic=True, perm=perm)
    ok = check(same, g, "%r -> %r: %s" % (s, t, why))
    ok &= check([stereo_parity(m2, k, relabel=perm) for k in range(len(perm))]
                == [stereo_parity(m, perm[k]) for k in range(len(perm))], g,
                "%r -> %r parity changed" % (s, t))
    ok &= check(double_bond_config(m2, relabel=perm) == double_bond_config(m), g,
                "%r -> %r double bond config changed" % (s, t))
    ok &= check(rd_canonical(s) == rd_canonical(t), "b:rdkit-canonical",
                "%r -> %r : %r != %r" % (s, t, rd_canonical(s), rd_canonical(t)))
    return ok, t


# ----------------------------- (b') reader stereo functions on RDKit's own spellings
def full_config(m, relabel=None):
    """double_bond_config extended to every substituent pair (the second
    substituent of an atom is on the other side), as {(a, b): 'cis'|'trans'}
    keyed in the reference numbering."""
    r = (lambda x: x) if relabel is None else (lambda x: relabel[x])
    inv = {r(k): k for k in range(len(m.atoms))}
    out = {}
    for (ri, rj), entries in double_bond_config(m, relabel).items():
        for (ra, _), (rb, _), ct in entries:
            for a2 in m.adjacent(inv[ri]):
                for b2 in m.adjacent(inv[rj]):
                    if r(a2) == rj or r(b2) == ri:
                        continue
                    flips = (r(a2) != ra) + (r(b2) != rb)
                    val = ct if flips % 2 == 0 else {"cis": "trans", "trans": "cis"}[ct]
                    if out.setdefault((ri, rj, r(a2), r(b2)), val) != val:
                        out[(ri, rj, r(a2), r(b2))] = "INCONSISTENT"
    return out


def check_reader_on_rdkit_spellings(s, k):
    g = "b':reader-stereo-on-rdkit-spellings"
    rd = None if s in SYMMETRIC else rd_mol(s, True)
    if rd is None:
        return 0
    m = read_smiles(s)
    ref_par = [stereo_parity(m, i) for i in range(len(m.atoms))]
    ref_cfg = full_config(m)
    compared = 0
    for _ in range(k):
        t = Chem.MolToSmiles(rd, doRandom=True)
        perm = list(rd.GetPropsAsDict(True, True)["_smilesAtomOutputOrder"])
        try:
            m2 = read_smiles(t)
        except SmilesSyntaxError as e:
            check(False, g, "%r: RDKit spelling %r unreadable: %s" % (s, t, e.reason))
            continue
        same, why = same_molecule(m, m2, check_h=False, kekule_ok=True, perm=perm)
        same2, why2 = same_molecule(m2, m, check_h=False, kekule_ok=True,
                                    perm=[perm.index(i) for i in range(len(perm))])
        check(same or same2, g, "%r vs RDKit %r: %s / %s" % (s, t, why, why2))
        for new, old in enumerate(perm):
            p = stereo_parity(m2, new, relabel=perm)
            if p is not None and ref_par[old] is not None:
                compared += 1
                check(p == ref_par[old], g, "%r vs %r parity of atom %d" % (s, t, old))
        cfg = full_config(m2, relabel=perm)
        for key in set(cfg) & set(ref_cfg):
            compared += 1
            check(cfg[key] == ref_cfg[key] != "INCONSISTENT", g,
                  "%r vs %r double bond %r" % (s, t, key))
    return compared


# ------------------------------------------------------------------- (c) syntax
def check_syntax():
    for s in SYNTAX_ERRORS:
        try:
            read_smiles(s)
            check(False, "c:rejects", "%r accepted" % s)
        except SmilesSyntaxError as e:
            check(isinstance(e.reason, str) and e.reason, "c:rejects", "%r no reason" % s)
    for s in BASE + VALID_EXTRA:
        try:
            read_smiles(s)
            check(True, "c:accepts", "")
        except SmilesSyntaxError as e:
            check(False, "c:accepts", "%r rejected: %s" % (s, e.reason))


def check_api_examples():
    g = "d:api-examples"
    cfg = lambda s: {ct for v in double_bond_config(read_smiles(s)).values() for _, _, ct in v}
    for s, want in [("F/C=C/F", "trans"), ("F/C=C\\F", "cis"), ("C(/F)=C/F", "cis"),
                    ("C(\\F)=C/F", "trans"), ("F\\C=C\\F", "trans"), ("F/C=C/1CCCCC1O", "trans"),
                    ("F/C=C1CCCCC/1O", "cis")]:
        check(cfg(s) == {want}, g, "%r should be %s, got %r" % (s, want, cfg(s)))
    check(double_bond_config(read_smiles("FC=CF")) == {}, g, "unmarked double bond")
    m = read_smiles("N[C@@H](C)C(=O)O")
    check(m.neighbors[1] == [("atom", 0), ("H",), ("atom", 2), ("atom", 3)], g, "neighbour order")
    check(stereo_parity(m, 1) == +1 and stereo_parity(m, 0) is None, g, "parity of L-Ala")
    m = read_smiles("[C@H]1(C)CCCCO1")
    check(m.neighbors[0] == [("H",), ("atom", 6), ("atom", 1), ("atom", 2)], g, "ring digit order")
    check(read_smiles("C%123CC3C%12").ring_closures == [(3, 0, 2), (12, 0, 3)], g, "%123")
    m = read_smiles("F/C=C/1CCCCC\\1O")
    check(m.bond_marks == {(0, 1): "/", (2, 7): "/", (7, 2): "\\"} and not m.mark_conflicts,
          g, "ring bond marks at both ends")
    check(read_smiles("F/C=C/1CCCCC/1O").mark_conflicts == [(2, 7)], g, "mark conflict recorded")
    m = read_smiles("[13CH3-:7]")
    a = m.atoms[0]
    check((a.element, a.isotope, a.hcount, a.charge, a.bracket, a.token, a.pos, a.chirality)
          == ("C", 13, 3, -1, True, "[13CH3-:7]", 0, None), g, "bracket fields")
    a, b = read_smiles("c1ccccc1"), read_smiles("C1=CC=CC=C1")
    check(not same_molecule(a, b)[0] and same_molecule(a, b, kekule_ok=True)[0]
          and not same_molecule(b, a, kekule_ok=True)[0], g, "kekule_ok")
    check(not same_molecule(read_smiles("[CH4]"), read_smiles("C"))[0]
          and same_molecule(read_smiles("[CH4]"), read_smiles("C"), check_h=False)[0], g, "check_h")
    check(read_smiles("CC.O.[Na+]").fragments == [[0, 1], [2], [3]], g, "fragments")
    check(len(spellings("C[C@H]1CCCCO1", random.Random(1), 5)) == 5, g, "spellings()")


def main():
    rnd = random.Random(20260926)
    check_syntax()
    check_api_examples()

    # build the varied corpus: hand-written strings plus respellings of them
    corpus = list(dict.fromkeys(BASE))
    for s in BASE:
        for _ in range(2):
            _, t = check_same_order(s, rnd)
            _, u = check_traversal(s, rnd)
            corpus += [x for x in (t, u) if x not in corpus]
    for s in corpus:
        compare_with_rdkit(s)

    # every style option explicitly, on the stereo-heavy part of the corpus
    stereo = [s for s in BASE if "@" in s or "/" in s or "\\" in s]
    for s in stereo:
        for pol, side in itertools.product(LABEL_POLICIES, RING_SIDES):
            for es in (0.0, 1.0):
                style = dict(label_policy=pol, ring_bond_side=side, explicit_single=es,
                             bracket_variants=es)
                check_same_order(s, rnd, **style)
                check_traversal(s, rnd, **style)
    check_traversal("c1ccccc1-c1cc[nH]c1", rnd, explicit_aromatic=1.0)

    compared = sum(check_reader_on_rdkit_spellings(s, 10) for s in stereo)
    check(compared > 1000, "b':reader-stereo-on-rdkit-spellings",
          "only %d stereo elements compared" % compared)

    print("corpus size: %d SMILES (%d hand-written)" % (len(corpus), len(BASE)))
    for group in sorted(COUNTS):
        bad = sum(1 for f in FAILS if f.startswith(group + ":"))
        print("  %-40s %6d checks, %d failed" % (group, COUNTS[group], bad))
    for f in FAILS[:60]:
        print("FAIL", f)
    if len(FAILS) > 60:
        print("... and %d more" % (len(FAILS) - 60))
    print("RESULT:", "FAIL" if FAILS else "PASS")
    return 1 if FAILS or len(corpus) < 300 else 0


if __name__ == "__main__":
    sys.exit(main())
