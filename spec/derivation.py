"""Executable rendering of the SELFIES derivation rules (docs/source/derivation.rst, v2 spellings per CHANGELOG
v2.0.0).  Independent of the library: own symbol parser, own tables.  See DESIGN.md 7.2 for the four points where
the stale rst is not followed to the letter.

derive(tokens, table, budget='lenient'|'strict') -> Graph      raises Reject(symbol) when the derivation reaches a
symbol outside the grammar.
"""
import re

ELEMENTS = set("""H He Li Be B C N O F Ne Na Mg Al Si P S Cl Ar K Ca Sc Ti V Cr Mn Fe Co Ni Cu Zn Ga Ge As Se Br Kr
Rb Sr Y Zr Nb Mo Tc Ru Rh Pd Ag Cd In Sn Sb Te I Xe Cs Ba Hf Ta W Re Os Ir Pt Au Hg Tl Pb Bi Po At Rn Fr Ra Rf Db
Sg Bh Hs Mt Ds Rg Cn Fl Lv La Ce Pr Nd Pm Sm Eu Gd Tb Dy Ho Er Tm Yb Lu Ac Th Pa U Np Pu Am Cm Bk Cf Es Fm Md No
Lr""".split())
ORGANIC = {"B", "C", "N", "O", "S", "P", "F", "Cl", "Br", "I"}
INDEX = ("[C]", "[Ring1]", "[Ring2]", "[Branch1]", "[=Branch1]", "[#Branch1]", "[Branch2]", "[=Branch2]",
         "[#Branch2]", "[O]", "[N]", "[=N]", "[=C]", "[#C]", "[S]", "[P]")
BOND_ORDER = {"": 1, "-": 1, "/": 1, "\\": 1, "=": 2, "#": 3}


class Reject(Exception):
    def __init__(self, symbol):
        super().__init__(symbol)
        self.symbol = symbol


class GAtom:
    __slots__ = ('element', 'isotope', 'chirality', 'hcount', 'charge', 'symbol_index')

    def __init__(self, element, isotope, chirality, hcount, charge):
        self.element, self.isotope, self.chirality, self.hcount, self.charge = element, isotope, chirality, hcount, charge
        self.symbol_index = None

    def key(self):
        return (self.element, self.isotope, self.chirality, self.hcount, self.charge)


class Graph:
    def __init__(self):
        self.atoms = []
        self.bonds = {}      # (i, j) i<j -> order
        self.stereo = {}     # (src, dst) -> '/' | '\\'   (mark carried by the directed bond as derived)
        self.ring = set()    # (i, j) i<j pairs created as ring bonds
        self.adj = []        # per atom: list of neighbour indices in written order (without the predecessor)
        self.roots = []
        self.atom_attr = []  # per atom: list of (symbol index, symbol) that created it, enclosing branches first

    def view(self):
        return {'atoms': [a.key() for a in self.atoms], 'bonds': dict(self.bonds), 'stereo': dict(self.stereo),
                'adj': [list(x) for x in self.adj], 'roots': list(self.roots)}


_ATOM_RE = re.compile(r'^\[([=#/\\]?)([0-9]*)([A-Z][a-z]?)(@{0,2})(H[0-9])?([+-][1-9][0-9]*)?\]$', re.ASCII)
_BRANCH_RE = re.compile(r'^\[([=#]?)Branch([123])\]$')
_RING_RE = re.compile(r'^\[([=#]|[-/\\][-/\\])?Ring([123])\]$')


def classify(symbol):
    """-> ('branch', order, L) | ('ring', order, L, (lst, rst)) | ('eps',) | ('atom', order, stereo, fields) | None"""
    m = _BRANCH_RE.match(symbol)
    if m:
        return ('branch', BOND_ORDER[m.group(1)], int(m.group(2)))
    m = _RING_RE.match(symbol)
    if m:
        p = m.group(1) or ''
        if len(p) == 2:
            if p == '--':
                return None
            st = tuple((c if c in '/\\' else None) for c in p)
            return ('ring', 1, int(m.group(2)), st)
        return ('ring', BOND_ORDER[p], int(m.group(2)), (None, None))
    if symbol == '[epsilon]':
        return ('eps',)
    m = _ATOM_RE.match(symbol)
    if m:
        b, iso, el, chi, h, ch = m.groups()
        if el not in ELEMENTS:
            return None
        stereo = b if b in ('/', '\\') else None
        if symbol[1 + len(b):-1] in ORGANIC:
            return ('atom', BOND_ORDER[b], stereo, (el, None, None, None, 0))
        return ('atom', BOND_ORDER[b], stereo,
                (el, int(iso) if iso else None, chi or None, int(h[1:]) if h else 0,
                 (int(ch[1:]) * (1 if ch[0] == '+' else -1)) if ch else 0))
    return None


def capacity(table, element, charge, hcount):
    key = element if charge == 0 else '%s%+d' % (element, charge)
    cap = table[key] if key in table else table['?']
    return cap - (hcount or 0)


def idx(symbol):
    return INDEX.index(symbol) if symbol in INDEX else 0


class _Cursor:
    def __init__(self, toks):
        self.toks, self.pos = toks, 0

    def next(self):
        if self.pos < len(self.toks):
            t = self.toks[self.pos]
            self.pos += 1
            return t
        return None


def _read_q(cur, n):
    q = 0
    for _ in range(n):
        t = cur.next()
        q = q * 16 + (idx(t[1]) if t is not None else 0)
    return q


def _derive(cur, g, table, state, prev, budget, rings, strict, enclosing):
    """Derive from cursor `cur` for at most `budget` symbols (None = unbounded) starting in state X_state."""
    start = cur.pos
    while state is not None and (budget is None or cur.pos - start < budget):
        t = cur.next()
        if t is None:
            break
        i, sym = t
        c = classify(sym)
        if c is None:
            raise Reject(sym)
        if c[0] == 'branch':
            _, order, L = c
            if state <= 1:
                nxt = state
            else:
                binit = min(state - 1, order)
                nxt = state - binit
                q = _read_q(cur, L)
                if strict:
                    sub = _Cursor(cur.toks[cur.pos:cur.pos + q + 1])
                    _derive(sub, g, table, binit, prev, None, rings, strict, enclosing + [(i, sym)])
                    cur.pos = min(len(cur.toks), cur.pos + q + 1)
                else:
                    _derive(cur, g, table, binit, prev, q + 1, rings, strict, enclosing + [(i, sym)])
        elif c[0] == 'ring':
            _, order, L, st = c
            if state == 0:
                nxt = state
            else:
                ro = min(order, state)
                left = state - ro
                nxt = None if left == 0 else left
                q = _read_q(cur, L)
                rings.append((max(0, prev - (q + 1)), prev, ro, st))
        elif c[0] == 'eps':
            nxt = 0 if state == 0 else None
        else:
            _, order, stereo, fields = c
            cap = capacity(table, fields[0], fields[4], fields[3])
            if cap < 0:
                raise Reject(sym)
            mu = 0 if state == 0 else min(order, state, cap)
            left = cap - mu
            nxt = None if left == 0 else left
            if mu == 0 and state != 0:
                pass       # cannot bond (capacity 0): atom is not created; derivation continues from it formally
            if mu > 0 or state == 0:
                a = GAtom(*fields)
                k = len(g.atoms)
                g.atoms.append(a)
                g.adj.append([])
                g.atom_attr.append(enclosing + [(i, sym)])
                if state == 0:
                    g.roots.append(k)
                else:
                    g.bonds[(prev, k)] = mu
                    if stereo:
                        g.stereo[(prev, k)] = stereo
                    g.adj[prev].append(k)
                prev = k
            else:
                # mu == 0 at state > 0 only happens when cap == 0: next state is terminal (cap - 0 == 0)
                prev = prev
        if nxt is None:
            state = None
            break
        state = nxt
    if budget is not None and not strict:
        while cur.pos - start < budget:
            if cur.next() is None:
                break
    return prev


def form_rings(g, table, rings):
    made = [0] * len(g.atoms)
    count = [0] * len(g.atoms)
    for (i, j), o in g.bonds.items():
        count[i] += o
        count[j] += o
    for l, r, order, (lst, rst) in rings:
        if l == r:
            continue
        la, ra = g.atoms[l], g.atoms[r]
        lfree = capacity(table, la.element, la.charge, la.hcount) - count[l]
        rfree = capacity(table, ra.element, ra.charge, ra.hcount) - count[r]
        if lfree <= 0 or rfree <= 0:
            continue
        order = min(order, lfree, rfree)
        key = (min(l, r), max(l, r))
        if key in g.bonds:
            new = min(order + g.bonds[key], 3)
            count[l] += new - g.bonds[key]
            count[r] += new - g.bonds[key]
            g.bonds[key] = new
        else:
            g.bonds[key] = order
            g.ring.add(key)
            if lst:
                g.stereo[(l, r)] = lst
            if rst:
                g.stereo[(r, l)] = rst
            g.adj[l].insert(made[l], r)
            g.adj[r].insert(made[r], l)
            made[l] += 1
            made[r] += 1
            count[l] += order
            count[r] += order


def tokenize(selfies):
    """Independent tokenizer for well-formed strings: returns list of fragments, each a list of symbols."""
    frags = []
    for part in selfies.split('.'):
        toks = re.findall(r'\[[^\[\]]*\]', part)
        if ''.join(toks) != part:
            raise ValueError('not a well-formed SELFIES string')
        frags.append(toks)
    return frags


def derive(selfies, table, budget='lenient'):
    """Whole-string derivation.  Symbol indices count non-[nop] symbols over the whole input ('.' not counted)."""
    g = Graph()
    rings = []
    offset = 0
    for toks in tokenize(selfies):
        toks = [t for t in toks if t != '[nop]']
        cur = _Cursor([(offset + k, t) for k, t in enumerate(toks)])
        _derive(cur, g, table, 0, None, None, rings, budget == 'strict', [])
        offset += len(toks)
    form_rings(g, table, rings)
    return g
