"""SMILES spelling generators (test oracle side, independent of the library
under test).  Both generators re-emit a molecule that was read with
``smiles_reader.read_smiles``:

* ``respell_same_order(s, rnd)``  keeps the atom order, varies the spelling;
* ``random_traversal(mol, rnd)``  random root / branch order / ring-digit
  order, returns ``(smiles, perm)`` with ``perm[new_index] == old_index``.

Stereo is carried over by construction: the @/@@ tag is chosen so that
``stereo_parity`` is unchanged for the neighbour order actually written, and
a '/' or '\\' is re-derived from ``RMol.directed_mark`` for the direction in
which the bond is written (the mark of a directed bond does not depend on
where the bond appears in the string).
"""
import random

try:
    from .smiles_reader import read_smiles, stereo_parity, permutation_sign
except ImportError:                      # run as a plain script directory
    from smiles_reader import read_smiles, stereo_parity, permutation_sign

LABEL_POLICIES = ("fresh", "reuse", "percent", "zero")
RING_SIDES = ("open", "close", "both")


class Style:
    """Spelling choices that do not change the molecule.  Every option left
    at None is drawn from ``rnd`` (per molecule, or per bond/atom for the
    probabilities)."""

    def __init__(self, rnd, label_policy=None, explicit_single=None,
                 ring_bond_side=None, bracket_variants=None,
                 explicit_aromatic=0.0):
        self.rnd = rnd
        # fresh: 1,2,3.. never reused | reuse: smallest free label from 1
        # percent: always %nn, smallest free from 10 | zero: smallest from 0
        self.label_policy = label_policy or rnd.choice(LABEL_POLICIES)
        assert self.label_policy in LABEL_POLICIES
        # probability of writing '-' for an ordinary single bond
        self.explicit_single = (rnd.choice((0.0, 0.3, 1.0))
                                if explicit_single is None else explicit_single)
        # where a ring bond's symbol goes: 'open' | 'close' | 'both' | 'random'
        self.ring_bond_side = ring_bond_side or rnd.choice(RING_SIDES + ("random",))
        # probability of the long bracket form ([N+1], [CH1], [O-2], [CH0]..)
        self.bracket_variants = (rnd.choice((0.0, 0.5, 1.0))
                                 if bracket_variants is None else bracket_variants)
        # probability of writing ':' between two aromatic atoms
        self.explicit_aromatic = explicit_aromatic

    def coin(self, p):
        return p > 0 and self.rnd.random() < p


class _Labels:
    """Ring-label allocator for one output string."""

    def __init__(self, policy):
        self.policy, self.busy, self.counter = policy, set(), 1
        self.base = {"zero": 0, "percent": 10}.get(policy, 1)

    def take(self):
        if self.policy == "fresh" and self.counter <= 99:
            lab, self.counter = self.counter, self.counter + 1
        else:
            lab = self.base
            while lab in self.busy:
                lab += 1
        if lab > 99:
            raise ValueError("more than 100 simultaneously open rings")
        self.busy.add(lab)
        return lab

    def release(self, lab):
        self.busy.discard(lab)

    def text(self, lab):
        return "%%%02d" % lab if (lab > 9 or self.policy == "percent") else str(lab)


def _atom_text(atom, tag, st):
    sym = atom.element.lower() if atom.aromatic else atom.element
    if not atom.bracket:
        return sym
    long_form = st.coin(st.bracket_variants)
    h, q = atom.hcount, atom.charge
    if h == 0:
        htxt = "H0" if (long_form and atom.element != "H") else ""
    else:
        htxt = "H" if (h == 1 and not long_form) else "H%d" % h
    if q == 0:
        qtxt = ""
    elif abs(q) == 1:
        qtxt = "%+d" % q if long_form else "+-"[q < 0]
    elif (abs(q) == 2) != long_form:      # ++ / -- short, +3 short, +++ long
        qtxt = "+-"[q < 0] * abs(q)
    else:
        qtxt = "%+d" % q
    iso = "" if atom.isotope is None else str(atom.isotope)
    cls = "" if atom.atom_class is None else ":%d" % atom.atom_class
    return "[%s%s%s%s%s%s]" % (iso, sym, tag, htxt, qtxt, cls)


def _bond_text(mol, u, v, st):
    """Symbol for bond u-v written in reading direction u -> v, and whether
    it may be omitted."""
    order = mol.order(u, v)
    arom = mol.atoms[u].aromatic and mol.atoms[v].aromatic
    if order == 2:
        return "="
    if order == 3:
        return "#"
    if order == 1.5:
        return ":" if (not arom or st.coin(st.explicit_aromatic)) else ""
    mark = mol.directed_mark(u, v)
    if mark:
        return mark
    return "-" if (arom or st.coin(st.explicit_single)) else ""


def _emit(mol, roots, parent, kids, rings, st):
    """Write the molecule.  roots: fragment roots in output order; parent[u];
    kids[u]: tree children in output order; rings[u]: ring-bond partners of u
    in the order their digits are written on u."""
    out, labels, opened = [], _Labels(st.label_policy), {}
    work = []
    for r in reversed(roots):
        work.append(("atom", r))
        if r != roots[0]:
            work.append(("text", "."))
    while work:
        kind, u = work.pop()
        if kind == "text":
            out.append(u)
            continue
        atom, par = mol.atoms[u], parent.get(u)
        if par is not None:
            out.append(_bond_text(mol, par, u, st))
        # chirality tag for the neighbour order this spelling has
        tag, target = "", stereo_parity(mol, u)
        if target is not None:
            seq = ([] if par is None else [par]) + \
                  ([-1] if atom.hcount == 1 else []) + rings[u] + kids[u]
            tag = "@" if target * permutation_sign(seq) > 0 else "@@"
        out.append(_atom_text(atom, tag, st))
        for v in rings[u]:
            key = (u, v) if u < v else (v, u)
            if key in opened:                       # closing digit
                lab, side = opened.pop(key)
                labels.release(lab)
                sym = _bond_text(mol, u, v, st)
                if side == "open" and sym != "-":   # a bare '-' is harmless
                    sym = ""
            else:                                   # opening digit
                side = st.ring_bond_side
                if side == "random":
                    side = st.rnd.choice(RING_SIDES)
                lab = labels.take()
                opened[key] = (lab, side)
                sym = _bond_text(mol, u, v, st)
                if side == "close" and sym != "-":
                    sym = ""
            out.append(sym + labels.text(lab))
        ks = kids[u]
        if ks:
            work.append(("atom", ks[-1]))
            for c in reversed(ks[:-1]):
                work += [("text", ")"), ("atom", c), ("text", "(")]
    assert not opened
    return "".join(out)


def respell_same_order(s, rnd, **style):
    """Another spelling of SMILES ``s`` with the SAME atom order: explicit or
    implicit '-', ring-label policy, side of ring-bond symbols, bracket forms,
    and the order of ring digits on non-chiral atoms.  Ring digits are always
    written before branches.  Keyword options: see ``Style``."""
    mol = read_smiles(s)
    st = Style(rnd, **style)
    n = len(mol.atoms)
    parent = {a.index: a.prev for a in mol.atoms}
    kids, rings = [[] for _ in range(n)], [[] for _ in range(n)]
    for u in range(n):
        for v in mol.adjacent(u):
            if v == parent[u]:
                continue
            (kids if mol.atoms[v].prev == u else rings)[u].append(v)
        if mol.atoms[u].chirality is None:
            rnd.shuffle(rings[u])
    roots = [a.index for a in mol.atoms if a.prev is None]
    return _emit(mol, roots, parent, kids, rings, st)


def random_traversal(mol, rnd, **style):
    """Write ``mol`` from random roots with random branch and ring-digit
    order.  Returns (smiles, perm), perm[new_index] = old_index."""
    st = Style(rnd, **style)
    n = len(mol.atoms)
    adj = [mol.adjacent(u) for u in range(n)]
    parent, kids, rings = {}, [[] for _ in range(n)], [[] for _ in range(n)]
    seen, ring_bonds, order, roots = set(), set(), [], []
    todo = list(range(n))
    rnd.shuffle(todo)
    for root in todo:                      # one DFS per connected component
        if root in seen:
            continue
        roots.append(root)
        parent[root] = None
        seen.add(root)
        order.append(root)
        stack = [(root, iter(rnd.sample(adj[root], len(adj[root]))))]
        while stack:
            u, it = stack[-1]
            for v in it:
                key = (u, v) if u < v else (v, u)
                if v not in seen:
                    seen.add(v)
                    parent[v] = u
                    kids[u].append(v)
                    order.append(v)
                    stack.append((v, iter(rnd.sample(adj[v], len(adj[v])))))
                    break
                if v != parent[u] and key not in ring_bonds:
                    ring_bonds.add(key)
                    rings[u].append(v)
                    rings[v].append(u)
            else:
                stack.pop()
    for u in range(n):
        rnd.shuffle(rings[u])
    return _emit(mol, roots, parent, kids, rings, st), order


def spellings(s, rnd, n, reorder=True, **style):
    """Up to n distinct alternative spellings of SMILES ``s`` (never ``s``
    itself): same-order respellings and, if ``reorder``, random traversals.
    Convenience wrapper; use the two generators directly when the atom
    permutation is needed."""
    mol, found = read_smiles(s), []
    for k in range(4 * n):
        if len(found) >= n:
            break
        t = (random_traversal(mol, rnd, **style)[0] if (reorder and k % 2)
             else respell_same_order(s, rnd, **style))
        if t != s and t not in found:
            found.append(t)
    return found


if __name__ == "__main__":
    import sys
    _rnd = random.Random(0)
    for _s in sys.argv[1:]:
        print(_s, spellings(_s, _rnd, 6))
