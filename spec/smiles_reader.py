"""Independent SMILES reader used as a test oracle.

Written from the OpenSMILES specification; shares no code with the library
under test.  Pure stdlib, Python 3.11.

Supported: organic subset (B C N O P S F Cl Br I, aromatic b c n o p s),
bracket atoms ``[isotope? symbol chirality? Hn? charge? (:class)?]``, the bonds
``- = # : / \\``, branches, ring closures (digit and ``%nn``, labels reusable,
label 0 allowed) and dots.  Rejected with SmilesSyntaxError: ``*``, ``$``,
``@TH1``-style chirality classes, a dot inside a branch, and everything that
is not SMILES at all.

Conventions worth knowing:

* a ring label is a NUMBER: ``%01`` and ``1`` are the same label (OpenSMILES);
* ring-closure digits written after a branch (``C(C)1CC1``) are accepted and
  keep their written place in the neighbour order;
* a chiral centre with three neighbours and no H (sulfoxide) gets no virtual
  lone-pair entry, its parity is that of the three written neighbours
  (this is also what RDKit does).
"""

ELEMENTS = frozenset(
    "H He Li Be B C N O F Ne Na Mg Al Si P S Cl Ar K Ca Sc Ti V Cr Mn Fe Co Ni "
    "Cu Zn Ga Ge As Se Br Kr Rb Sr Y Zr Nb Mo Tc Ru Rh Pd Ag Cd In Sn Sb Te I "
    "Xe Cs Ba La Ce Pr Nd Pm Sm Eu Gd Tb Dy Ho Er Tm Yb Lu Hf Ta W Re Os Ir Pt "
    "Au Hg Tl Pb Bi Po At Rn Fr Ra Ac Th Pa U Np Pu Am Cm Bk Cf Es Fm Md No Lr "
    "Rf Db Sg Bh Hs Mt Ds Rg Cn Nh Fl Mc Lv Ts Og".split())
ORGANIC = ("Cl", "Br", "B", "C", "N", "O", "P", "S", "F", "I")  # 2-letter first
AROMATIC_ORGANIC = frozenset("bcnops")
AROMATIC_BRACKET = ("se", "as", "te", "si", "b", "c", "n", "o", "p", "s")
BOND_ORDER = {"-": 1, "/": 1, "\\": 1, "=": 2, "#": 3, ":": 1.5}
MARKS = ("/", "\\")
FLIP = {"/": "\\", "\\": "/"}


class SmilesSyntaxError(ValueError):
    def __init__(self, reason, pos=None, smiles=None):
        self.reason, self.pos, self.smiles = reason, pos, smiles
        where = "" if pos is None else " at offset %d" % pos
        super().__init__("%s%s in %r" % (reason, where, smiles))


class RAtom:
    """One atom as written.  ``hcount`` is None for an organic-subset atom
    (implicit H), an int for a bracket atom.  ``prev`` (extension) is the index
    of the atom this one was chained/branched from, None for a fragment root;
    ``atom_class`` (extension) is the ``:n`` class of a bracket atom or None."""
    __slots__ = ("index", "element", "aromatic", "isotope", "chirality", "hcount",
                 "charge", "bracket", "token", "pos", "prev", "atom_class")

    def __init__(self, **kw):
        for k in self.__slots__:
            setattr(self, k, kw.get(k))

    def __repr__(self):
        return "RAtom(%d,%s)" % (self.index, self.token)


class RMol:
    def __init__(self):
        self.atoms = []          # [RAtom]
        self.bonds = {}          # (i, j), i < j -> 1 | 2 | 3 | 1.5
        self.bond_marks = {}     # (written_at/src, other/dst) -> '/' | '\\'
        self.neighbors = []      # per atom: [('atom', j) | ('H',)] as written
        self.fragments = []      # [[atom index]] dot-separated, as written
        self.ring_closures = []  # [(label, opening atom, closing atom)]
        self.mark_conflicts = []  # ring bonds whose two end marks disagree

    def order(self, i, j):
        return self.bonds.get((i, j) if i < j else (j, i))

    def adjacent(self, i):
        """Bonded atom indices of i, in written order."""
        return [e[1] for e in self.neighbors[i] if e[0] == "atom"]

    def directed_mark(self, a, b):
        """'/' or '\\' of bond a-b expressed for reading direction a -> b, or
        None.  If a ring bond carries contradictory marks at its two ends the
        closing end wins (see ``mark_conflicts``)."""
        fwd, back = self.bond_marks.get((a, b)), self.bond_marks.get((b, a))
        if fwd and back and fwd != FLIP[back]:
            closing = {(j, i) for _, i, j in self.ring_closures}
            return fwd if (a, b) in closing else FLIP[back]
        return fwd or (FLIP[back] if back else None)


# --------------------------------------------------------------------------
# reading
# --------------------------------------------------------------------------

def _digits(s, k):
    e = k
    while e < len(s) and s[e].isdigit():
        e += 1
    return s[k:e], e


def _read_bracket(s, start):
    """Parse the bracket atom starting at s[start] == '['.  Returns
    (field dict, offset just past ']')."""
    def bad(why, at):
        raise SmilesSyntaxError("malformed bracket atom: " + why, at, s)

    end = s.find("]", start)
    if end < 0:
        bad("no closing ']'", start)
    k = start + 1
    iso, k = _digits(s, k)
    if s[k].isupper():
        two = s[k:k + 2]
        if len(two) == 2 and two[1].islower() and two in ELEMENTS:
            sym = two
        elif s[k] in ELEMENTS:
            sym = s[k]
        else:
            bad("unknown element", k)
        aromatic = False
    else:
        sym = next((a for a in AROMATIC_BRACKET if s.startswith(a, k)), None)
        if sym is None:
            bad("element symbol expected", k)
        aromatic = True
    k += len(sym)
    chir = None
    if s[k] == "@":
        chir = "@@" if s[k + 1] == "@" else "@"
        k += len(chir)
        if s.startswith(("TH", "AL", "SP", "TB", "OH"), k) or s[k] == "@":
            raise SmilesSyntaxError("unsupported chirality class", k, s)
    hcount = 0
    if s[k] == "H":
        num, k = _digits(s, k + 1)
        if len(num) > 1:
            bad("hydrogen count has at most one digit (OpenSMILES: hcount ::= 'H' DIGIT?)", k)
        hcount = int(num) if num else 1
    charge = 0
    if s[k] in "+-":
        sign = 1 if s[k] == "+" else -1
        e = k
        while s[e] == s[k]:
            e += 1
        num, e2 = _digits(s, e)
        if num and e - k > 1:
            bad("charge mixes repeated signs and a number", k)
        charge, k = sign * (int(num) if num else e - k), e2
    aclass = None
    if s[k] == ":":
        num, k = _digits(s, k + 1)
        if not num:
            bad("atom class needs digits", k)
        aclass = int(num)
    if k != end:
        bad("unexpected %r" % s[k], k)
    return dict(element=sym.capitalize(), aromatic=aromatic,
                isotope=int(iso) if iso else None, chirality=chir,
                hcount=hcount, charge=charge, bracket=True, atom_class=aclass,
                token=s[start:end + 1], pos=start), end + 1


def read_smiles(s):
    """Parse a SMILES string into an RMol; raise SmilesSyntaxError otherwise."""
    def err(reason, at):
        raise SmilesSyntaxError(reason, at, s)

    if s == "":
        err("empty string", 0)
    mol = RMol()
    prev = None        # atom that the next atom / ring digit attaches to
    bond = None        # pending bond symbol and its offset
    fresh = False      # True between '(' and the first atom of that branch
    stack = []         # (atom to return to, offset of '(')
    open_rings = {}    # label -> (atom, bond symbol, neighbour slot, offset)
    i, n = 0, len(s)
    while i < n:
        ch = s[i]
        # ---- bond symbols ------------------------------------------------
        if ch in BOND_ORDER:
            if bond:
                err("two bond symbols in a row", i)
            if prev is None:
                err("bond symbol with nothing to bind", i)
            bond = (ch, i)
            i += 1
            continue
        # ---- structure characters ---------------------------------------
        if ch in "().":
            if bond:
                err("bond symbol with nothing to bind", bond[1])
            if ch == "(":
                if prev is None or fresh:
                    err("branch does not follow an atom", i)
                stack.append((prev, i))
                fresh = True
            elif ch == ")":
                if not stack:
                    err("unbalanced parentheses: unmatched ')'", i)
                if fresh:
                    err("empty branch", i)
                prev = stack.pop()[0]
            else:
                if stack:
                    err("dot inside a branch is not supported", i)
                if prev is None:
                    err("empty fragment", i)
                prev = None
            i += 1
            continue
        # ---- ring closures ------------------------------------------------
        if ch.isdigit() or ch == "%":
            if ch == "%":
                label = s[i + 1:i + 3]
                if len(label) != 2 or not label.isdigit() or not label.isascii():
                    err("'%' must be followed by two digits", i)
                width = 3
            else:
                if not ch.isascii():
                    err("unknown character %r" % ch, i)
                label, width = ch, 1
            label = int(label)
            if prev is None or fresh:
                err("ring label does not follow an atom", i)
            sym = bond[0] if bond else None
            if label not in open_rings:
                open_rings[label] = (prev, sym, len(mol.neighbors[prev]), i)
                mol.neighbors[prev].append(None)        # filled on closing
            else:
                a, asym, slot, apos = open_rings.pop(label)
                if a == prev:
                    err("ring closure to the same atom", i)
                key = (a, prev) if a < prev else (prev, a)
                if key in mol.bonds:
                    err("ring closure duplicates an existing bond", i)
                both = asym is not None and sym is not None
                if both and asym != sym and not (asym in MARKS and sym in MARKS):
                    err("mismatching bond symbols on ring closure", i)
                given = asym or sym
                if given:
                    mol.bonds[key] = BOND_ORDER[given]
                else:
                    arom = mol.atoms[a].aromatic and mol.atoms[prev].aromatic
                    mol.bonds[key] = 1.5 if arom else 1
                if asym in MARKS:
                    mol.bond_marks[(a, prev)] = asym
                if sym in MARKS:
                    mol.bond_marks[(prev, a)] = sym
                if both and asym in MARKS and sym in MARKS and asym == sym:
                    mol.mark_conflicts.append(key)
                mol.neighbors[a][slot] = ("atom", prev)
                mol.neighbors[prev].append(("atom", a))
                mol.ring_closures.append((label, a, prev))
            bond = None
            i += width
            continue
        # ---- atoms ---------------------------------------------------------
        if ch == "[":
            fields, j = _read_bracket(s, i)
        else:
            sym = next((e for e in ORGANIC if s.startswith(e, i)), None)
            if sym is None and ch in AROMATIC_ORGANIC:
                sym = ch
            if sym is None:
                what = "unsupported" if ch in "*$" else "unknown"
                err("%s character %r" % (what, ch), i)
            j = i + len(sym)
            fields = dict(element=sym.capitalize(), aromatic=sym.islower(),
                          isotope=None, chirality=None, hcount=None, charge=0,
                          bracket=False, token=sym, pos=i)
        idx = len(mol.atoms)
        atom = RAtom(index=idx, prev=prev, **fields)
        mol.atoms.append(atom)
        mol.neighbors.append([])
        if prev is None:
            mol.fragments.append([])
        else:
            sym = bond[0] if bond else None
            if sym:
                order = BOND_ORDER[sym]
            else:
                order = 1.5 if (mol.atoms[prev].aromatic and atom.aromatic) else 1
            mol.bonds[(prev, idx)] = order
            if sym in MARKS:
                mol.bond_marks[(prev, idx)] = sym
            mol.neighbors[prev].append(("atom", idx))
            mol.neighbors[idx].append(("atom", prev))
        if atom.bracket and atom.hcount == 1:
            mol.neighbors[idx].append(("H",))
        mol.fragments[-1].append(idx)
        prev, bond, fresh = idx, None, False
        i = j
    if bond:
        err("bond symbol with nothing to bind", bond[1])
    if stack:
        err("unbalanced parentheses: unmatched '('", stack[-1][1])
    if prev is None:
        err("empty fragment", n - 1)
    if open_rings:
        label, (_, _, _, at) = sorted(open_rings.items())[0]
        err("ring label %d opened and never closed" % label, at)
    return mol


# --------------------------------------------------------------------------
# spelling-invariant observations
# --------------------------------------------------------------------------

def permutation_sign(seq):
    """+1 / -1: parity of the permutation that sorts ``seq`` (distinct keys)."""
    inv = sum(1 for a in range(len(seq)) for b in range(a + 1, len(seq))
              if seq[a] > seq[b])
    return -1 if inv % 2 else 1


def stereo_parity(mol, i, relabel=None):
    """Handedness (+1/-1) of chiral atom i, None if it has no @/@@ tag.

    '@' counts +1 and '@@' -1, multiplied by the sign of the permutation that
    sorts the written neighbour order (atom index as key, implicit H = -1).
    The value is the same for every spelling with the same atom numbering.
    To compare spellings with different atom orders pass ``relabel`` (a list
    or dict: atom index in ``mol`` -> index in the reference numbering)."""
    tag = mol.atoms[i].chirality
    if tag is None:
        return None
    keys = [-1 if e[0] == "H" else (e[1] if relabel is None else relabel[e[1]])
            for e in mol.neighbors[i]]
    return (1 if tag == "@" else -1) * permutation_sign(keys)


def double_bond_config(mol, relabel=None):
    """{(i, j): frozenset({((a, i), (b, j), 'cis'|'trans'), ...})} for every
    double bond i=j (i < j) with at least one '/'- or '\\'-marked single bond
    on each side; a, b are the marked substituents of i, j.  ``relabel`` as in
    stereo_parity (the result is then expressed in the reference numbering)."""
    r = (lambda x: x) if relabel is None else (lambda x: relabel[x])
    out = {}
    for (i, j), order in mol.bonds.items():
        if order != 2:
            continue
        sides = []
        for c, other in ((i, j), (j, i)):
            marked = []
            for a in mol.adjacent(c):
                # mark normalised to point away from the double-bond atom
                m = mol.directed_mark(c, a) if a != other else None
                if m and mol.order(c, a) == 1:
                    marked.append((a, m))
            sides.append(marked)
        if not (sides[0] and sides[1]):
            continue
        if r(i) > r(j):
            i, j, sides = j, i, sides[::-1]
        # equal outward marks point to the same side of the double bond
        out[(r(i), r(j))] = frozenset(
            ((r(a), r(i)), (r(b), r(j)), "cis" if ma == mb else "trans")
            for a, ma in sides[0] for b, mb in sides[1])
    return out


def bond_order_sum(mol, i):
    """Sum of bond orders at atom i (aromatic bonds count 1.5)."""
    return sum(o for (a, b), o in mol.bonds.items() if i in (a, b))


def same_molecule(m1, m2, check_h=True, kekule_ok=False, check_aromatic=False,
                  perm=None):
    """Index-by-index comparison, returns (bool, reason).

    Compares atom count, then per atom element / isotope / charge (and hcount
    if check_h, None only equals None; and the aromatic flag if
    check_aromatic), then the bond sets and orders.  With kekule_ok an
    aromatic (1.5) bond of m1 may be 1 or 2 in m2.  ``perm`` (extension):
    perm[k] = index in m1 of atom k of m2; default identity."""
    if len(m1.atoms) != len(m2.atoms):
        return False, "atom count %d != %d" % (len(m1.atoms), len(m2.atoms))
    p = list(range(len(m2.atoms))) if perm is None else perm
    if sorted(p) != list(range(len(m1.atoms))):
        return False, "perm is not a permutation"
    fields = ["element", "isotope", "charge"]
    fields += ["hcount"] if check_h else []
    fields += ["aromatic"] if check_aromatic else []
    for k, b in enumerate(m2.atoms):
        a = m1.atoms[p[k]]
        for f in fields:
            if getattr(a, f) != getattr(b, f):
                return False, "atom %d (%s) vs atom %d (%s): %s %r != %r" % (
                    a.index, a.token, k, b.token, f, getattr(a, f), getattr(b, f))
    b2 = {tuple(sorted((p[i], p[j]))): o for (i, j), o in m2.bonds.items()}
    if set(m1.bonds) != set(b2):
        diff = sorted(set(m1.bonds) ^ set(b2))
        return False, "bond sets differ (m1 numbering): %r" % (diff,)
    for key, o1 in m1.bonds.items():
        o2 = b2[key]
        if o1 != o2 and not (kekule_ok and o1 == 1.5 and o2 in (1, 2)):
            return False, "bond %r order %r != %r" % (key, o1, o2)
    return True, "ok"
