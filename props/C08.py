"""C08 - decoder is total: returns or raises DecoderError, always terminates, leaves the constraint state alone."""
import random
import time
import warnings

ID = 'C08'
LEVEL = 'other'
TARGETS = ['selfies/grammar_rules.py::next_atom_state',
           'selfies/grammar_rules.py::next_branch_state',
           'selfies/grammar_rules.py::next_ring_state',
           'selfies/grammar_rules.py::get_index_from_selfies',
           'selfies/decoder.py::_read_index_from_selfies',
           'selfies/mol_graph.py::MolecularGraph.__len__',
           'selfies/mol_graph.py::MolecularGraph.get_atom',
           'selfies/mol_graph.py::MolecularGraph.get_bond_count',
           'selfies/mol_graph.py::MolecularGraph.has_bond',
           'selfies/mol_graph.py::MolecularGraph.get_dirbond',
           'selfies/mol_graph.py::MolecularGraph.add_atom',
           'selfies/mol_graph.py::MolecularGraph.add_bond',
           'selfies/mol_graph.py::MolecularGraph.add_ring_bond',
           'selfies/mol_graph.py::MolecularGraph.update_bond_order',
           'selfies/utils/smiles_utils.py::smiles_to_bond',
           'selfies/utils/smiles_utils.py::bond_to_smiles',
           'selfies/decoder.py::_form_rings_bilocally',
           'selfies/mol_graph.py::Atom.bonding_capacity',
           'selfies/grammar_rules.py::process_branch_symbol',
           'selfies/grammar_rules.py::process_ring_symbol',
           'selfies/grammar_rules.py::process_atom_symbol',
           'selfies/grammar_rules.py::_process_atom_selfies_no_cache',
           'selfies/decoder.py::_tokenize_selfies',
           'selfies/utils/selfies_utils.py::split_selfies']
ASSUMPTIONS = ["atom-symbol contracts (process_atom_symbol, _process_atom_selfies_no_cache, smiles_to_atom, tokenize_smiles) assume ASCII input of at most 4000 characters: Unicode digits matched by \\\\d and CPython's 4300-digit int() limit are recorded known findings", "regex match groups are modelled as SOME decomposition of the string into the pattern's top-level pieces (sound over-approximation of the greedy choice); functools.partial(Atom, **kw) is modelled as a heap object whose call constructs a fresh Atom", "graph-level contracts (mol_graph mutators, _form_rings_bilocally) cover integer bond orders and attribution off (the decoder side); the link between _bond_counts and the sum over incident bonds is carried by the mutators' whole-view postconditions, the finite-sum update law itself is a stated mathematical fact"]
EXPLANATION = (
    "Mixed. PROVED: exception-freedom obligations (index in range, key present, None receivers, asserts, unpack "
    "arity, division by zero) generated at every raising operation of the functions under contract listed in "
    "functions_under_contract, each either proved impossible or covered by the function's raises clause. BOUNDED (not "
    "counted as proved): a grammar-directed junk generator (bracket/dot/nop/legacy/near-miss symbols, Unicode digits, "
    "control characters, long and deeply nested inputs) x the four flag combinations drives the real decoder; the "
    "monitor accepts only a return value or DecoderError, checks a wall-clock cap and that get_semantic_constraints() "
    "is unchanged.")


def run_one(s, compatible, attribute):
    import selfies as sf
    from harness import watchdog
    before = sf.get_semantic_constraints()
    t0 = time.time()
    try:
        with warnings.catch_warnings():
            warnings.simplefilter('ignore')
            r = watchdog.call(lambda: sf.decoder(s, compatible=compatible, attribute=attribute), 45)
        res = ('ok',)
        if attribute and not (isinstance(r, tuple) and len(r) == 2 and isinstance(r[0], str)):
            res = ('bad-result', repr(r)[:100])
        if not attribute and not isinstance(r, str):
            res = ('bad-result', repr(r)[:100])
    except sf.DecoderError:
        res = ('DecoderError',)
    except watchdog.Hang:
        watchdog.note_hang()
        return ('slow', 'no result after 45 s')
    except BaseException as e:
        res = ('escaped', type(e).__name__, str(e)[:120])
    dt = time.time() - t0
    if sf.get_semantic_constraints() != before:
        return ('state-changed',)
    if dt > 60:
        return ('slow', dt)
    return res


def _work(job):
    strings = job
    n, bad, nt = 0, [], set()
    from harness import watchdog
    for s in strings:
        if watchdog.hang_seen():
            break       # a call of this run did not return: reported; further hanging inputs would only cost time
        for comp in (False, True):
            for attr in (False, True):
                n += 1
                r = run_one(s, comp, attr)
                kind = r[:2]
                # capped per kind of escape so that a recorded class can never crowd out a new one
                if r[0] not in ('ok', 'DecoderError') and sum(1 for b in bad if b['kind'] == kind) < 2:
                    bad.append({'clause': 'C08:total', 'detail': repr(r), 'kind': kind,
                                'input': {'selfies': s if len(s) < 2000 else s[:200] + '...(%d chars)' % len(s),
                                          'generator': None, 'compatible': comp, 'attribute': attr}})
                if r[0] == 'DecoderError':
                    nt.add(hash(s))
    return n, len(nt), bad


def domain(tier, seed):
    from harness import gen
    rnd = random.Random(seed)
    out = list(gen.JUNK) + list(gen.LEGACY)
    out += [a + b for a in gen.JUNK for b in gen.JUNK[:30]]
    for _ in range(6000 if tier == 'quick' else 100000):
        out.append(gen.junk_selfies(rnd, rnd.choice([1, 2, 3, 5, 9, 20])))
    for _ in range(300 if tier == 'quick' else 3000):
        out.append(gen.rand_selfies(rnd, rnd.choice([50, 300, 1500])))
    # atoms that cannot bond at all (capacity 0 through explicit H / charge) in every position of the derivation:
    # root, chain, first symbol of a branch, after a ring symbol, behind a dot, as branch/ring index
    cap0 = ['[CH4]', '[=CH4]', '[NH3]', '[OH2]', '[FH1]', '[BH3]', '[OH1-1]', '[13CH4]', '[#NH3]', '[H]', '[=H]', '[ClH1]']
    shapes = ['{a}', '[C]{a}', '{a}[C]', '[C][Branch1][C]{a}', '[C][Branch1][Ring1]{a}[C][O]', '[C][=Branch1][C]{a}[C]',
              '[C][Ring1][C]{a}', '[C].{a}', '{a}.{a}', '[C][Branch1][C]{a}[Ring1][C]', '[C][Branch1]{a}[C][C]',
              '[C][C][Ring1]{a}', '[C][Branch2][C]{a}{a}[C]', '{a}[Branch1][C][C][C]', '{a}[Ring1][C]',
              '[C][Branch1][C][Branch1][C]{a}[C]', '[C][Branch1][Ring2]{a}{a}{a}[O]', '[O][=C]{a}[=C]']
    out += [sh.replace('{a}', a) for a in cap0 for sh in shapes]
    # long / nested (bounded well below the recursion-limit finding, which is replayed separately)
    k = 1 if tier == 'quick' else 4
    out.append('[C]' * (5000 * k))
    out.append('[C][Branch1][C]' * 300)
    out.append('[C][=Branch3][P][P][P]' * 200 + '[C]' * 500)
    out.append('[Ring3]' * 5000)
    out.append('[C][Ring1]' * (2000 * k))
    out.append('[' * 50000)
    out.append(']' * 50000)
    out.append('.' * 20000)
    out.append('[nop]' * 50000)
    out.append('[C].' * (2000 * k))
    return out


def floor(ctx):
    import selfies as sf
    from harness.par import pmap, chunks
    sf.set_semantic_constraints('default')
    from harness import watchdog
    watchdog.reset()
    strings = domain(ctx.tier, ctx.seed)
    strings = strings[-10:] + strings[:-10]
    res = pmap(_work, [[x] for x in strings[:10]] + chunks(strings[10:], 48))
    return {'evaluations': sum(r[0] for r in res), 'distinct_nontrivial': sum(r[1] for r in res),
            'rule': 'junk table (%d fragments) and their pairwise concatenations, seeded mixtures of junk/legacy/valid '
                    'symbols of 1..20 tokens, valid random strings up to 1500 symbols, 10 very long inputs (to 10^5 '
                    'symbols), each x {compatible} x {attribute}; non-trivial = distinct inputs rejected with '
                    'DecoderError' % len(__import__('harness.gen', fromlist=['JUNK']).JUNK),
            'exhaustive': False, 'samples': ['[C][', '[Branch1_4][C]', '[C+10]', '[٣C]'],
            'violations': [b for r in res for b in r[2]], 'bounded_note': 'sampled; not counted as proved'}


def replay_input(d):
    i = d['input']
    r = run_one(i['selfies'], i['compatible'], i['attribute'])
    return r[0] in ('ok', 'DecoderError'), repr(r)


def replay_known(ctx, k):
    s = eval(k['witness']['expr'])
    r = run_one(s, False, False)
    if k['id'].endswith('recursion-depth'):
        return r[0] == 'escaped' and r[1] == 'RecursionError'
    return r[0] == 'escaped' and r[1] == 'ValueError'
