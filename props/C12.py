"""C12 - see DESIGN 7.11 / 7.12 (shared history enumerator in harness/history.py)."""
ID = 'C12'
LEVEL = 'other'
TARGETS = ['selfies/bond_constraints.py::get_preset_constraints', 'selfies/bond_constraints.py::get_semantic_constraints', 'selfies/bond_constraints.py::set_semantic_constraints', 'selfies/bond_constraints.py::get_bonding_capacity']
ASSUMPTIONS = ['constraint-table values of type bool (True/False pass isinstance(value, int)) are not modelled; keys of the table passed to set_semantic_constraints are assumed to be str', 'lru_cache is modelled by a per-function memo flag (stale after a write of _current_constraints, clean after cache_clear()); the dict iteration order is abstract (ghost key vector enumerating exactly the present keys)']
EXPLANATION = (
    "BOUNDED stand-in (not counted as proved) plus every deductive clause listed in coverage.clauses: enumerated "
    "histories of public API calls (constraint updates valid and invalid, caller-side mutation of every object the "
    "library returned or was given, encodes and decodes that fill the internal memo tables) are run on the real "
    "library; after every step the configuration (table, presets, robust alphabet) is compared with a reference model "
    "of the statement and the translation results with FRESH interpreters set to the same table.")


BOGUS_KEYS = ['Xx', 'Zz', 'J', 'Q', 'A', 'c', 'n', 'cl', 'CL', 'CO', 'LrNh', 'NoLr', 'HHe', 'CC', 'C C', ' C', 'C ', 'C\n', 'Cc',
              'Uue', 'D', 'T', 'X', 'R', 'Me', 'Ph', '*', '', 'C+', 'C-', 'C+-1', 'C+1+1', 'C1', '1C', 'C+1.0', 'C+１', '?+1',
              'Fe+', 'Fe2+', '+1', 'C+0', 'C-0', 'C+01']


def _key_sweep(ctx):
    """every element symbol (independent table in spec/derivation.py), bare and with charges of one and two digits,
    is a valid key: set -> get returns the same dict; every key that is not `element`, `element+n` or `element-n`
    (n a positive integer) is rejected with ValueError and leaves the table as it was"""
    import selfies as sf
    from spec.derivation import ELEMENTS
    bad, n = [], 0
    sf.set_semantic_constraints('default')
    for el in sorted(ELEMENTS):
        t = {'?': 3, el: 2, el + '+1': 1, el + '-2': 4, el + '+12': 0}
        n += 1
        try:
            sf.set_semantic_constraints(dict(t))
            got = sf.get_semantic_constraints()
        except Exception as e:
            got = 'raised %r' % (e,)
        if got != t and len(bad) < 4:
            bad.append({'clause': 'C12:faithful-set-get', 'input': {'table': t},
                        'detail': 'set_semantic_constraints(%r) then get_semantic_constraints() -> %r' % (t, got)})
    sf.set_semantic_constraints('default')
    before = sf.get_semantic_constraints()
    for k in BOGUS_KEYS:
        t = {'?': 3, 'C': 4, k: 2}
        n += 1
        try:
            sf.set_semantic_constraints(dict(t))
            r = 'accepted'
        except ValueError:
            r = None
        except Exception as e:
            r = 'raised %r, not ValueError' % (e,)
        after = sf.get_semantic_constraints()
        if (r or after != before) and len(bad) < 8:
            bad.append({'clause': 'C12:rejects-invalid', 'input': {'table': t},
                        'detail': 'key %r: %s; table afterwards %s' % (k, r or 'rejected', 'unchanged' if after == before
                                                                       else 'CHANGED to %r' % (after,))})
            sf.set_semantic_constraints('default')
    sf.set_semantic_constraints('default')
    return n, bad


def floor(ctx):
    from harness import history
    res = history.floor(ctx, ID)
    n, bad = _key_sweep(ctx)
    res['evaluations'] += n
    res['violations'] += bad
    res['rule'] += ('; plus every element symbol of an independent periodic table as key (bare, +1, -2, +12) and %d '
                    'malformed keys' % len(BOGUS_KEYS))
    return res


def replay_input(d):
    from harness import history
    if 'table' in d.get('input', {}):
        import selfies as sf
        t = d['input']['table']
        sf.set_semantic_constraints('default')
        try:
            sf.set_semantic_constraints(dict(t))
            got = sf.get_semantic_constraints()
            ok = (got == t) if d['clause'] == 'C12:faithful-set-get' else False
            detail = 'accepted; get -> %r' % (got,)
        except ValueError as e:
            ok = d['clause'] != 'C12:faithful-set-get'
            detail = 'ValueError: %s' % e
        sf.set_semantic_constraints('default')
        return ok, detail
    return history.replay(d)


def replay_known(ctx, k):
    import selfies as sf
    sf.set_semantic_constraints('default')
    a = sf.get_semantic_robust_alphabet()
    a.add('[XYZ]')
    bad = '[XYZ]' in sf.get_semantic_robust_alphabet()
    sf.set_semantic_constraints('default')
    return bad
