"""C12 - see DESIGN 7.11 / 7.12 (shared history enumerator in harness/history.py)."""
ID = 'C12'
LEVEL = 'other'
TARGETS = ['selfies/bond_constraints.py::get_preset_constraints', 'selfies/bond_constraints.py::get_semantic_constraints', 'selfies/bond_constraints.py::set_semantic_constraints', 'selfies/bond_constraints.py::get_bonding_capacity']
ASSUMPTIONS = ['constraint-table values of type bool (True/False pass isinstance(value, int)) are not modelled; keys of the table passed to set_semantic_constraints are assumed to be str', 'lru_cache is modelled by a per-function memo flag (stale after a write of _current_constraints, clean after cache_clear()); the dict iteration order is abstract (ghost key vector enumerating exactly the present keys)']
EXPLANATION = (
    "BOUNDED stand-in (not counted as proved) plus every deductive clause listed in coverage.clauses: enumerated "
    "histories of public API calls (constraint updates valid and invalid, caller-side mutation of every object the "
    "library returned or was given, encodes and decodes that fill the internal memo tables) are run on the real "
    "library; after every step the configuration (table, presets, robust alphabet) is compared with a reference model "
    "of the statement and the translation results with FRESH interpreters set to the same table.")


def floor(ctx):
    from harness import history
    return history.floor(ctx, ID)


def replay_input(d):
    from harness import history
    return history.replay(d)


def replay_known(ctx, k):
    import selfies as sf
    sf.set_semantic_constraints('default')
    a = sf.get_semantic_robust_alphabet()
    a.add('[XYZ]')
    bad = '[XYZ]' in sf.get_semantic_robust_alphabet()
    sf.set_semantic_constraints('default')
    return bad
