"""C03 - SMILES -> SELFIES -> SMILES round trip preserves the molecule atom for atom (DESIGN 7.3)."""
ID = 'C03'
LEVEL = 'other'
TARGETS = ['selfies/grammar_rules.py::get_selfies_from_index',
           'selfies/grammar_rules.py::get_index_from_selfies',
           'selfies/decoder.py::_read_index_from_selfies',
           'pow16_pos',
           'div_div16',
           'selfies/utils/smiles_utils.py::smiles_to_bond',
           'selfies/utils/smiles_utils.py::bond_to_smiles',
           'selfies/encoder.py::_bond_to_selfies',
           'selfies/encoder.py::_ring_bonds_to_selfies']
EXPLANATION = ('Mixed. PROVED: the component lemmas the round trip rests on - the index code emitted by the encoder is the exact inverse of the decoder-side conversion (C16 contracts, all n) - and every clause listed in coverage.clauses. BOUNDED (not counted as proved): whole-pipeline equality read(decoder(encoder(s))) == read(s) index by index (element, isotope, charge, H count, bonded pairs, bond orders; aromatic bonds become a consistent single/double assignment) for a corpus of molecules and their alternative spellings; the global induction over DFS spellings is out of reach of the engine (DESIGN 1).')


def inputs(ctx):
    from harness import enc, encfloor
    c = enc.corpus()
    sel = c[::3] if ctx.tier == 'quick' else c
    from harness import smifuzz
    fz = smifuzz.strings(ctx.seed + 1, 1200 if ctx.tier == 'quick' else 15000)
    return encfloor.SPECIAL + encfloor.long_chain_cases() + sel + fz


def floor(ctx):
    from harness import encfloor
    return encfloor.run(ctx, ID, inputs(ctx), 2 if ctx.tier == 'quick' else 6, RULE)


RULE = ("389 hand-written special cases (harness/encfloor.SPECIAL, grown with every seeded change that was first missed) (stereo centres opening/closing rings in all label orders, implicit-H centres, marks on ring closures, bracket spelling variants, aromatic systems, ring/branch lengths needing 1-2 index symbols) plus a 1/3 (quick) or full (thorough) subset of the committed 3272-molecule corpus sampled from the repository's datasets; plus grammar-fuzzed SMILES (harness/smifuzz.py: bracket atoms with every field, bond symbols on ring digits, %nn labels, ring digits before and after branches, several fragments); each with N same-order respellings (ring-label policy, explicit '-', bracket variants) and N random re-traversals (atom order changed) written by spec/smiles_writer.py; encoder -> decoder (-> encoder) on the real library under a relaxed table, judged by the independent reader; non-trivial = distinct SELFIES strings produced")


def replay_input(d):
    from harness import encfloor
    return encfloor.replay(d)
