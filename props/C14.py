"""C14 - tokenisation utilities agree with each other and with the translators (DESIGN 7.14)."""
import itertools
import random
import re

ID = 'C14'
LEVEL = 'other'
TARGETS = ['selfies/utils/selfies_utils.py::split_selfies', 'selfies/utils/selfies_utils.py::len_selfies']
ASSUMPTIONS = ['split_selfies: the concatenation clause is proved for every str (z3 + cvc5 on quantifier-free word equations)']
EXPLANATION = (
    "BOUNDED stand-in (not counted as proved) plus every deductive clause listed in coverage.clauses: for every "
    "well-formed string built from token lists (bracketed symbols with arbitrary inner text, single dots anywhere but "
    "first/doubled, the empty string) up to a length bound, split_selfies yields exactly the tokens, their concatenation "
    "is the input, len_selfies equals the number of items, get_alphabet_from_selfies of finite collections (with empty "
    "strings and duplicates, lists and one-shot iterators) is exactly the symbol set without '.', every encoder output is "
    "well formed in this sense and the decoder's attribution indices agree with the tokens.")

INNER = ['C', '=N', 'nop', 'Branch1', '', ' ', 'x y', '#C@@H1', '1', '=', 'é', 'C+1']


# inner texts a tokeniser built on regexes, str.splitlines, format strings or C-strings would stumble over
ODD_INNER = ['\n', 'a\nb', '\r', '\t', '\x00', '\u2028', '\x0b', '\x1c', '\\', '(', '*', '+?', '^$', '{}', '%s', '\\n', '"',
             "'", 'C\n', '\nC', '\x85', '\U0001f600']


def wf_strings(maxtok, inner=None):
    toks = ['[%s]' % x for x in (inner or INNER)]
    for n in range(0, maxtok + 1):
        for combo in itertools.product(range(len(toks) + 1), repeat=n):
            # index len(toks) stands for '.', allowed only after a symbol and not doubled
            seq, ok = [], True
            for k in combo:
                if k == len(toks):
                    if not seq or seq[-1] == '.':
                        ok = False
                        break
                    seq.append('.')
                else:
                    seq.append(toks[k])
            if ok:
                yield seq


def check_tokens(seq):
    import selfies as sf
    s = ''.join(seq)
    try:
        got = list(sf.split_selfies(s))
    except Exception as e:
        return 'C14:split', 'split_selfies(%r) raised %r' % (s, e)
    if got != seq:
        return 'C14:split', 'split_selfies(%r) = %r, tokens are %r' % (s, got, seq)
    if ''.join(got) != s:
        return 'C14:concat', 'concatenation %r != input %r' % (''.join(got), s)
    try:
        if sf.len_selfies(s) != len(seq):
            return 'C14:len', 'len_selfies(%r) = %d, %d items' % (s, sf.len_selfies(s), len(seq))
        want = set(seq) - {'.'}
        if sf.get_alphabet_from_selfies([s]) != want:
            return 'C14:alphabet', 'get_alphabet_from_selfies([%r]) = %r, want %r' % (
                s, sf.get_alphabet_from_selfies([s]), want)
    except Exception as e:
        return 'C14:total-on-well-formed', 'raised %r on well-formed %r' % (e, s)
    return None


def _work(job):
    n, bad, nt = 0, [], 0
    for seq in job:
        n += 1
        r = check_tokens(seq)
        if r and len(bad) < 3:
            bad.append({'clause': r[0], 'detail': r[1], 'input': {'tokens': seq}})
        if '.' in seq:
            nt += 1
    return n, nt, bad


def floor(ctx):
    import selfies as sf
    from harness.par import pmap, chunks
    from harness import enc, gen
    L = 4 if ctx.tier == 'quick' else 5
    seqs = list(wf_strings(L)) + list(wf_strings(2, ODD_INNER + ['C']))
    res = pmap(_work, chunks(seqs, 32))
    ev = sum(r[0] for r in res)
    nt = sum(r[1] for r in res)
    viol = [b for r in res for b in r[2]]
    rnd = random.Random(ctx.seed)
    # collections: empty strings, duplicates, generators
    pool = [''.join(x) for x in seqs[:: max(1, len(seqs) // 400)]] + ['', '']
    for _ in range(300 if ctx.tier == 'quick' else 5000):
        coll = [rnd.choice(pool) for _ in range(rnd.choice([0, 1, 2, 3, 6]))]
        want = set()
        for s in coll:
            want |= set(re.findall(r'\[[^\]]*\]', s))
        ev += 1
        for form in (list(coll), iter(list(coll)), tuple(coll)):
            try:
                got = sf.get_alphabet_from_selfies(form)
            except Exception as e:
                got = {'raised %r' % (e,)}
            if got != want and len(viol) < 6:
                viol.append({'clause': 'C14:alphabet-collection', 'input': {'collection': coll},
                             'detail': 'got %r want %r' % (sorted(got), sorted(want))})
                break
    # an abandoned tokeniser (peeked at, zipped, or cut short by an error of its consumer) must not affect later calls
    sample = seqs[:: max(1, len(seqs) // 300)]
    for seq in sample:
        s_ = ''.join(seq)
        ev += 1
        g = sf.split_selfies(s_)
        next(g, None)
        del g
        for a_, b_ in zip(sf.split_selfies(s_), sf.split_selfies(s_ + '[C][O]')):
            break
        try:
            sf.decoder(s_ + '[Zz]' + s_)
        except Exception:
            pass
        try:
            sf.selfies_to_encoding(s_ + '[Qq]', {'[nop]': 0})
        except Exception:
            pass
        r = check_tokens(seq)
        if r and len(viol) < 8:
            viol.append({'clause': r[0], 'input': {'tokens': seq, 'history': 'abandoned split_selfies generators, a failing '
                         'decoder call and a failing selfies_to_encoding call on the same string first'},
                         'detail': r[1] + ' (after abandoned tokenisers of the same string)'})
    # encoder outputs are well formed; decoder attribution indices match the tokens
    sf.set_semantic_constraints(enc.relaxed_table())
    long_ones = ['C' * 4097, '[Na+].' + 'C' * 5000 + 'O.[Cl-]', 'C' * 4096, 'CC(C)' * 1500, 'C.' * 3000 + 'C',
                 'N' + 'C(F)' * 2500 + 'O', 'C1CC1' * 900, 'OC(=O)' + 'CC=C' * 1400]
    for s in long_ones + enc.corpus()[:: (25 if ctx.tier == 'quick' else 3)]:
        try:
            sel = sf.encoder(s)
        except sf.EncoderError:
            continue
        ev += 1
        toks = re.findall(r'\[[^\[\]\.]*\]|\.', sel)
        bad = None
        try:
            split_ok = list(sf.split_selfies(sel)) == toks and sf.len_selfies(sel) == len(toks)
        except Exception as e:
            split_ok = False
        if ''.join(toks) != sel or sel.startswith('.') or '..' in sel or sel.endswith('.'):
            bad = 'encoder output %r is not well formed' % sel
        elif not split_ok:
            bad = 'split/len disagree on encoder output %r' % sel
        else:
            out, attr = sf.decoder(sel, attribute=True)
            syms = [t for t in toks if t != '.']
            for am in attr:
                for a in (am.attribution or []):
                    if not (0 <= a.index < len(syms)) or syms[a.index] != a.token:
                        bad = 'decoder consumed token %r at symbol index %d, tokens are %r' % (a.token, a.index, syms[:12])
            # ... and it consumes ALL of them: every atom of the input is an atom of the output
            n_in = len(re.findall(r'\[[^\]]*\]|Cl|Br|[BCNOSPFIbcnosp]', s))
            n_out = len(re.findall(r'\[[^\]]*\]|Cl|Br|[BCNOSPFIbcnosp]', out))
            if n_in != n_out and not bad:
                bad = ('decoder did not consume every token of the encoder output: %d atoms in, %d atoms out (%d symbols)'
                       % (n_in, n_out, len(syms)))
        if bad and len(viol) < 8:
            viol.append({'clause': 'C14:encoder-output', 'input': {'smiles': s if len(s) < 300 else s[:100] + '...(%d chars)' % len(s)},
                         'detail': bad[:600]})
    sf.set_semantic_constraints('default')
    return {'evaluations': ev, 'distinct_nontrivial': nt,
            'rule': 'every token sequence of length <= %d over 12 bracketed symbols with unusual inner text and single dots '
                    '(never first, never doubled), incl. the empty string; seeded finite collections as list/iterator/'
                    'tuple; encoder outputs for a corpus subset checked for well-formedness and against decoder '
                    'attribution indices; non-trivial = sequences containing a dot' % L,
            'exhaustive': True, 'samples': [['[C]', '.', '[=N]'], []], 'violations': viol,
            'bounded_note': 'bounded-exhaustive; not counted as proved'}


def replay_input(d):
    i = d['input']
    if 'tokens' in i:
        if i.get('history'):
            import selfies as sf
            s_ = ''.join(i['tokens'])
            g = sf.split_selfies(s_)
            next(g, None)
            del g
            for a_, b_ in zip(sf.split_selfies(s_), sf.split_selfies(s_ + '[C][O]')):
                break
            for f in (lambda: sf.decoder(s_ + '[Zz]' + s_), lambda: sf.selfies_to_encoding(s_ + '[Qq]', {'[nop]': 0})):
                try:
                    f()
                except Exception:
                    pass
        r = check_tokens(i['tokens'])
        return r is None, repr(r)
    if 'collection' in i:
        import selfies as sf
        want = set()
        for s in i['collection']:
            want |= set(re.findall(r'\[[^\]]*\]', s))
        got = sf.get_alphabet_from_selfies(list(i['collection']))
        return got == want, 'got %r want %r' % (sorted(got), sorted(want))
    return True, 'not replayable'
