"""C06 - strict encoding rejects exactly the constraint-violating molecules (DESIGN 7.6)."""
ID = 'C06'
LEVEL = 'other'
TARGETS = ['selfies/bond_constraints.py::set_semantic_constraints',
           'selfies/bond_constraints.py::get_bonding_capacity',
           'selfies/encoder.py::_check_bond_constraints',
           'selfies/mol_graph.py::Atom.bonding_capacity',
           'selfies/mol_graph.py::MolecularGraph.get_bond_count',
           'selfies/mol_graph.py::MolecularGraph.get_atoms',
           'selfies/utils/smiles_utils.py::atom_to_smiles']
ASSUMPTIONS = ['constraint-table values of type bool (True/False pass isinstance(value, int)) are not modelled; keys of the table passed to set_semantic_constraints are assumed to be str', 'lru_cache is modelled by a per-function memo flag (stale after a write of _current_constraints, clean after cache_clear()); the dict iteration order is abstract (ghost key vector enumerating exactly the present keys)']
EXPLANATION = (
    "BOUNDED stand-in (runtime property contract on the public encoder; not counted as proved) plus every deductive "
    "clause listed in coverage.clauses: for 8 constraint tables switched between calls inside one process (stale-memo "
    "check) and molecules with atoms one below, at and one above their capacity through bonds, explicit H, charge and "
    "isotopes, elements covered only by '?': encoder(strict=True) raises EncoderError iff the independent bond count "
    "(spec/smiles_reader.py) + explicit H exceeds the capacity looked up independently in get_semantic_constraints(); "
    "encoder(strict=False) never raises and returns the same string under every table; an accepted strict encoding "
    "decodes to the same molecule.")

TABLES = [
    'default', 'octet_rule', 'hypervalent',
    {'?': 4}, {'?': 0, 'C': 4, 'H': 1}, {'?': 8, 'C': 3, 'N': 5, 'O': 0, 'I-1': 0, 'C+1': 5, 'N+1': 1, 'Fe+2': 2},
    {'?': 2, 'C': 12, 'S': 9, 'P': 1, 'B-1': 5, 'O-1': 3, 'H': 2, 'Mg': 0},
    {'?': 6, 'C': 4, 'N': 3, 'O': 2, 'C-1': 4, 'N-1': 0, 'S+1': 7, 'Cl': 3, 'F': 0},
    # supersets of tables 3 and 4: every old entry kept, keys ADDED for atom types served by '?' before
    {'?': 4, 'Si': 2, 'Mg': 1, 'Fe': 6, 'C': 3, 'N': 5, 'S': 2, 'I': 3, 'H': 2, 'B': 1},
    {'?': 0, 'C': 4, 'H': 1, 'N': 3, 'O': 2, 'Si': 4, 'F': 1, 'P': 5, 'Fe': 3},
    # one below the usual valence of the common ring atoms (aromatic atoms exactly one over their capacity)
    {'?': 3, 'C': 3, 'N': 2, 'O': 1, 'S': 1, 'N+1': 3, 'F': 1, 'Cl': 1},
    {'?': 4, 'C': 4, 'N': 2, 'O': 2, 'S': 2, 'N+1': 4},
]


def expected(smiles, tab):
    from spec import smiles_reader as R
    from spec.derivation import capacity
    m = R.read_smiles(smiles)
    over = []
    for i, a in enumerate(m.atoms):
        arom = [j for j in m.adjacent(i) if m.order(i, j) == 1.5]
        if arom:
            # aromatic input: every Kekule structure gives an atom its sigma bonds plus one double bond if (and only
            # if) it needs a pi bond - decided by the independent rule for the standard atom kinds, else not judged
            from harness.enc import _needs_pi
            need = _needs_pi(m, i)
            if need is None:
                return m, None
            used = sum(1 if m.order(i, j) == 1.5 else m.order(i, j) for j in m.adjacent(i)) + (1 if need else 0)
            used += (a.hcount or 0)
        else:
            used = R.bond_order_sum(m, i) + (a.hcount or 0)
        if used > capacity(tab, a.element, a.charge, 0):
            over.append((i, a.token, used))
    return m, over


def check(smiles, tab, tname):
    import selfies as sf
    from spec import smiles_reader as R
    out = []
    m, over = expected(smiles, tab)
    if over is None:
        return [], None
    from harness.enc import kekulizable
    if any(m.order(i, j) == 1.5 for i in range(len(m.atoms)) for j in m.adjacent(i)) and kekulizable(m) is not True:
        return [], None         # the verdict is about the table only for molecules that have a Kekule structure
    try:
        sel = sf.encoder(smiles, strict=True)
        raised = False
    except sf.EncoderError as e:
        raised = True
        msg = str(e)
    if raised and not over:
        if 'semantic constraints' in msg:
            out.append(('C06:no-false-reject', 'strict encoder rejects %r under %s although no atom exceeds its capacity'
                        % (smiles, tname)))
    if over and not raised:
        out.append(('C06:rejects-violations', 'strict encoder accepts %r under %s although atoms %r exceed capacity -> %r'
                    % (smiles, tname, over, sel)))
    if not raised:
        try:
            m2 = R.read_smiles(sf.decoder(sel))
            ok, why = R.same_molecule(m, m2, kekule_ok=True)
            if not ok and not over:
                out.append(('C06:no-silent-change', 'strict encoding of %r under %s decodes to a different molecule: %s'
                            % (smiles, tname, why)))
        except Exception as e:
            out.append(('C06:no-silent-change', 'decoding strict output raised %r' % (e,)))
    try:
        loose = sf.encoder(smiles, strict=False)
    except sf.EncoderError as e:
        loose = None
        if 'semantic constraints' in str(e):
            out.append(('C06:nonstrict-never-rejects', 'strict=False raised for %r under %s' % (smiles, tname)))
    return out, loose


def install(t):
    """Make t the table in force; for dicts, the caller then mutates the dict it passed in (must have no effect)."""
    import selfies as sf
    if isinstance(t, dict):
        passed = dict(t)
        sf.set_semantic_constraints(passed)
        try:
            sf.encoder('CC(C)N')          # fills the capacity memo
        except sf.EncoderError:
            pass
        passed['C'] = 1
        passed['N'] = 9
        passed['?'] = 0
    else:
        sf.set_semantic_constraints(t)
    return sf.get_semantic_constraints()


def _work(job):
    import selfies as sf
    mols, order = job
    n, bad, nt = 0, [], set()
    for s in mols:
        loose_seen = {}
        for ti in order:
            t = TABLES[ti]
            tab = install(t)
            n += 1
            try:
                res, loose = check(s, tab, repr(t))
            except Exception as e:
                res, loose = [('C06:checker', 'unexpected %r' % (e,))], None
            loose_seen[ti] = loose
            for cl, d in res:
                if len(bad) < 4 and not cl.endswith('checker'):
                    bad.append({'clause': cl, 'detail': d, 'input': {'smiles': s, 'table': t, 'sequence': list(order)}})
        if len(set(loose_seen.values())) > 1 and len(bad) < 4:
            bad.append({'clause': 'C06:nonstrict-table-independent',
                        'detail': 'encoder(%r, strict=False) depends on the table: %r' % (s, loose_seen),
                        'input': {'smiles': s, 'table': None, 'sequence': list(order)}})
        nt.add(hash(s))
    sf.set_semantic_constraints('default')
    return n, len(nt), bad


def molecules(tier):
    from harness import encfloor, enc
    base = [s for s in encfloor.SPECIAL if not any(c in s for c in 'cnosp') or 'C' in s and not any(
        x in s for x in ('c', 'n1', 'o1', 's1', '[nH]', 'se', 'p'))]
    base = [s for s in base if not any(ch.islower() and ch in 'cnosp' for ch in s.replace('Cl', '').replace('Co', '')
                                       .replace('Sn', '').replace('Zn', '').replace('Mn', '').replace('Sc', ''))]
    fam = []
    for el, cap in (('C', 4), ('N', 3), ('O', 2), ('S', 6), ('P', 5), ('B', 3), ('F', 1), ('Cl', 1), ('I', 1),
                    ('Si', 8), ('Mg', 8), ('Fe', 8), ('H', 1)):
        for k in range(0, 10):
            subs = 'C' * 0
            if el in ('C', 'N', 'O', 'S', 'P', 'B', 'F', 'Cl', 'I'):
                fam.append(el + '(C)' * k if k else el)
            fam.append('[%s]' % el + '(C)' * k)
            for h in (1, 2, 3):
                fam.append('[%sH%d]' % (el, h) + '(C)' * k)
            for ch in ('+', '-', '+2'):
                fam.append('[%s%s]' % (el, ch) + '(C)' * k)
        fam.append('[%s](=C)(=C)=C' % el)
        fam.append('[%s](#C)#C' % el)
        fam.append('[13%sH2](=O)C' % el)
    kek = [s for s in enc.corpus() if not any(c in s for c in 'cnos') and '[se]' not in s]
    # aromatic molecules of the standard atom kinds (lower-case and upper-case-with-colon spellings): the strict verdict
    # must count the bonds of the kekulized molecule, whichever atom carries the ring digits
    arom = ['c1ccccc1', 'Cc1ccccc1', 'c1cc(C)ccc1', 'c1ccccc1C', 'c1(C)ccccc1', 'CC(C)c1ccccc1', 'c1ccncc1', 'n1ccccc1',
            'c1ccccn1', 'O=n1ccccc1', 'c1cc[nH]c1', '[nH]1cccc1', 'c1ccoc1', 'o1cccc1', 'c1ccsc1', 's1cccc1', 'Cn1cccc1',
            'C[n+]1ccccc1', 'c1cc[n+](C)cc1', 'c1ccc2ccccc2c1', 'c12ccccc1cccc2', 'c1ccc(cc1)-c1ccccc1', 'Oc1ccccc1O',
            'Clc1ccccc1Cl', 'c1ccccc1N(C)C', 'O1:C:C:C:C:1', '[NH]1:C:C:C:C:1', 'C1:C:C:C2:C:C:C:C:C:2:C:1', 'S1:C:C:C:C:1',
            'C1:C:C:C:C:C:1', 'N1:C:C:C:C:C:1', 'C:1:C:C:C:C:C1C', 'c1ccc2[nH]ccc2c1', 'c1cnc2ccccc2n1', 'Cc1cc(C)cc(C)c1',
            'c1ccccc1C(=O)O', 'c1ccc(cc1)[N+](=O)[O-]', 'Fc1c(F)c(F)c(F)c(F)c1F']
    kar = [s for s in enc.corpus() if any(c in s for c in 'cn')]
    return base + fam + arom + (kek[::12] if tier == 'quick' else kek) + (kar[::40] if tier == 'quick' else kar[::4])


def floor(ctx):
    import random
    from harness.par import pmap, chunks
    mols = molecules(ctx.tier)
    rnd = random.Random(ctx.seed)
    jobs = []
    for ch in chunks(mols, 32):
        order = list(range(len(TABLES)))
        rnd.shuffle(order)
        jobs.append((ch, order + order[:3] + [3, 8, 4, 9, 3]))     # ... ending with sub-table -> super-table steps
    res = pmap(_work, jobs)
    return {'evaluations': sum(r[0] for r in res), 'distinct_nontrivial': sum(r[1] for r in res),
            'rule': 'non-aromatic special cases, a generated family (13 elements x 0..9 substituents x {plain, bracket, '
                    'H1-3, +, -, +2} plus multiple-bond and isotope forms) and kekule corpus molecules, each under all '
                    '12 tables in a shuffled order with 3 tables revisited and two table -> super-table steps (table changes between calls); non-trivial = '
                    'distinct molecules', 'exhaustive': False,
            'samples': ['[CH3](C)(C)C', 'C[I-]', '[Fe+2](C)(C)C'], 'violations': [b for r in res for b in r[2]],
            'bounded_note': 'bounded; not counted as proved'}


def replay_input(d):
    import selfies as sf
    i = d['input']
    bad = []
    for ti in i.get('sequence') or [None]:
        t = TABLES[ti] if ti is not None else i['table']
        res, _ = check(i['smiles'], install(t), repr(t))
        bad += res
    sf.set_semantic_constraints('default')
    return not bad, repr(bad[:2])


CONSTRAINT_READERS = {'_current_constraints', 'get_bonding_capacity', 'bonding_capacity', 'get_semantic_constraints',
                      'get_semantic_robust_alphabet', '_PRESET_CONSTRAINTS', 'get_preset_constraints'}


def ground(ctx):
    """Read-frame obligation (static, over the real ast): outside the strict check the encoder never consults the
    constraint table - no function reachable from encoder() without passing through _check_bond_constraints reads
    _current_constraints, calls get_bonding_capacity or evaluates Atom.bonding_capacity."""
    from harness import effects
    repo = ctx.ld.repo
    keys = effects.reachable(repo, ['selfies/encoder.py::encoder'], stop={'_check_bond_constraints'})
    sites = [s for s in effects.reads_of_names(repo, keys, CONSTRAINT_READERS)
             if not s[0].endswith('::_check_bond_constraints')]
    # the definitions of the readers themselves are reachable only by name, not by call, unless some site above names them
    sites = [s for s in sites if s[0].split('::')[1].split('.')[-1] not in ('bonding_capacity', 'get_bonding_capacity')]
    return [{'name': 'C06:nonstrict-read-frame', 'ok': not sites, 'n': len(keys),
             'detail': 'functions reachable from encoder() outside the strict check that read constraint state: %r' % (sites[:5],),
             'input': None}]
