"""C16 - index symbols form a shared base-16 positional code (DESIGN 7.16)."""
import itertools
import os
import re

ID = 'C16'
LEVEL = 'proof'
TARGETS = [
    'pow16_pos', 'div_div16',
    'selfies/grammar_rules.py::get_index_from_selfies',
    'selfies/grammar_rules.py::get_selfies_from_index',
    'selfies/decoder.py::_read_index_from_selfies',
]
EXPLANATION = (
    "Proved for all inputs by SMT-discharged verification conditions generated from /repo's source: "
    "get_selfies_from_index(n) for every integer n (loop invariant: quotient/digit characterisation; lemmas pow16_pos "
    "(induction) and div_div16 proved by the same engine): n<0 raises IndexError, otherwise the result is the "
    "big-endian list of the base-16 digits of n over the documented symbol order, has no leading zero digit, and "
    "has at most 3 symbols when n < 16^3; get_index_from_selfies for every tuple of at most 3 arbitrary values "
    "(loop unrolled, complete) equals sum idx(s_i)*16^(k-1-i) with unknown symbols and None counting 0; "
    "_read_index_from_selfies pads a short iterator with None. Ground (finite, complete): INDEX_ALPHABET equals the "
    "table parsed from docs/source/derivation.rst (pre-v2 names modernised) and INDEX_CODE[s_i]==i. "
    "Additionally executed exhaustively on the real functions: all n < 16^3 and all triples over 16 index symbols + "
    "2 non-index symbols + missing (bounded part, not counted in discharged).")
TRUSTED = ["documented symbol order: table in docs/source/derivation.rst, branch names modernised per CHANGELOG v2.0.0"]

OLD2NEW = {'[Branch1_1]': '[Branch1]', '[Branch1_2]': '[=Branch1]', '[Branch1_3]': '[#Branch1]',
           '[Branch2_1]': '[Branch2]', '[Branch2_2]': '[=Branch2]', '[Branch2_3]': '[#Branch2]'}


def doc_table(repo_root):
    txt = open(os.path.join(repo_root, 'docs/source/derivation.rst')).read()
    sec = txt.split('Index Symbols')[1].split('Branch Symbols')[0]
    out = {}
    for m in re.finditer(r'\|\s*(\d+)\s*\|\s*``(\[[^`]*\])``', sec):
        out[int(m.group(1))] = OLD2NEW.get(m.group(2), m.group(2))
    return tuple(out[i] for i in range(16)) if sorted(out) == list(range(16)) else None


def ground(ctx):
    import selfies.constants as K
    res = []
    doc = doc_table(ctx.ld.repo.root)
    spec = tuple(ctx.ld.consts['INDEX_DOC'])
    res.append({'name': 'C16:doc-table==contract-constant', 'ok': doc == spec, 'detail': (doc, spec), 'n': 16})
    res.append({'name': 'C16:INDEX_ALPHABET==documented', 'ok': tuple(K.INDEX_ALPHABET) == spec,
                'detail': (tuple(K.INDEX_ALPHABET), spec), 'input': 'selfies.constants.INDEX_ALPHABET', 'n': 16})
    ok = len(K.INDEX_CODE) == 16 and all(K.INDEX_CODE.get(s) == i for i, s in enumerate(spec))
    res.append({'name': 'C16:INDEX_CODE[s_i]==i', 'ok': ok, 'detail': dict(K.INDEX_CODE),
                'input': 'selfies.constants.INDEX_CODE', 'n': 16})
    dc = ctx.ld.consts['INDEX_DOC_CODE']
    res.append({'name': 'C16:contract-code-table-consistent', 'ok': dc == {s: i for i, s in enumerate(spec)}, 'n': 16})
    return res


def _check_n(n, spec):
    import selfies.grammar_rules as G
    import selfies, sys; D = sys.modules["selfies.decoder"]
    syms = G.get_selfies_from_index(n)
    digs = [spec.index(s) if s in spec else None for s in syms]
    if None in digs:
        return 'symbol outside the index alphabet: %r' % (syms,)
    val = 0
    for d in digs:
        val = val * 16 + d
    if val != n:
        return 'digits %r denote %d' % (syms, val)
    if len(syms) > 1 and digs[0] == 0:
        return 'leading zero digit: %r' % (syms,)
    if n < 4096 and len(syms) > 3:
        return 'more than three symbols: %r' % (syms,)
    if len(syms) <= 3:
        back = G.get_index_from_selfies(*syms)
        if back != n:
            return 'decoder-side conversion gives %d for %r' % (back, syms)
        it = iter([(i, s) for i, s in enumerate(syms)])
        back2 = D._read_index_from_selfies(it, n_symbols=len(syms))
        if back2 != n:
            return '_read_index_from_selfies gives %d for %r' % (back2, syms)
    return None


def floor(ctx):
    import random
    import selfies.grammar_rules as G
    import selfies, sys; D = sys.modules["selfies.decoder"]
    spec = tuple(ctx.ld.consts['INDEX_DOC'])
    viol = []
    ev = 0
    samples = []
    ns = list(range(4096))
    rnd = random.Random(ctx.seed)
    ns += [rnd.randrange(4096, 16 ** 8) for _ in range(2000 if ctx.tier == 'quick' else 50000)]
    for n in ns:
        ev += 1
        try:
            r = _check_n(n, spec)
        except Exception as e:
            r = 'raised %r' % (e,)
        if r and len(viol) < 5:
            viol.append({'clause': 'C16:roundtrip', 'input': {'n': n}, 'detail': r})
    try:
        G.get_selfies_from_index(-1)
        viol.append({'clause': 'C16:neg-raises', 'input': {'n': -1}, 'detail': 'no IndexError'})
    except IndexError:
        pass
    # all symbol triples over index symbols + non-index symbols + missing (None / exhausted iterator)
    pool = list(spec) + ['[F]', '[epsilon]', None]
    distinct = set()
    for k in range(0, 4):
        for tri in itertools.product(pool, repeat=k):
            ev += 1
            want = 0
            for s in tri:
                want = want * 16 + (spec.index(s) if s in spec else 0)
            try:
                got = G.get_index_from_selfies(*tri)
            except Exception as e:
                got = 'raised %r' % (e,)
            distinct.add(got)
            if got != want and len(viol) < 10:
                viol.append({'clause': 'C16:dec', 'input': {'symbols': list(tri)}, 'detail': 'got %r want %r' % (got, want)})
            # through the iterator reader, with missing symbols at the end
            present = [s for s in tri if s is not None]
            if len(present) == len(tri) or all(s is None for s in tri[len(present):]):
                it = iter(list(enumerate(present)))
                try:
                    got2 = D._read_index_from_selfies(it, n_symbols=len(tri))
                except Exception as e:
                    got2 = 'raised %r' % (e,)
                if got2 != want and len(viol) < 10:
                    viol.append({'clause': 'C16:read-index', 'input': {'symbols': present, 'n_symbols': len(tri)},
                                 'detail': 'got %r want %r' % (got2, want)})
    # "... which is what ring and branch symbols with suffix 1, 2, 3 can carry": end to end, a branch of Q + 1 atoms and
    # a ring bond spanning Q + 2 atoms are written as [BranchK] / [RingK] followed by the K digits of Q, and read back
    import selfies as sf
    sf.set_semantic_constraints('default')
    for Q in (0, 1, 14, 15, 16, 17, 254, 255, 256, 257, 4094, 4095):
        digits = []
        q = Q
        while True:
            digits.append(spec[q % 16])
            q //= 16
            if q == 0:
                break
        digits = digits[::-1]
        for kind, smi in (('Branch', 'N(' + 'C' * (Q + 1) + ')O'), ('Ring', 'N1' + 'C' * (Q + 1) + '1O')):
            if kind == 'Ring' and Q == 0:
                continue        # a ring bond between neighbours in the chain does not exist
            ev += 1
            want = '[%s%d]' % (kind, len(digits)) + ''.join(digits)
            try:
                sel = sf.encoder(smi)
                back = sf.decoder(sel)
                natoms = back.count('C') + back.count('N') + back.count('O')
                r = None
                if want not in sel:
                    r = 'encoder output lacks %r' % want
                elif natoms != Q + 3:
                    r = 'decoder read the index back wrongly: %d atoms instead of %d' % (natoms, Q + 3)
            except Exception as e:
                r = 'raised %r' % (e,)
            if r and len(viol) < 12:
                viol.append({'clause': 'C16:carried-by-ring-and-branch-symbols', 'input': {'smiles_shape': kind, 'Q': Q},
                             'detail': 'Q = %d as a %s: %s' % (Q, kind, r[:300])})
    samples = [{'n': 57, 'symbols': G.get_selfies_from_index(57)}, {'symbols': ['[C]', '[Branch1]', '[O]'],
               'index': G.get_index_from_selfies('[C]', '[Branch1]', '[O]')}]
    return {'evaluations': ev, 'distinct_nontrivial': len(distinct) + 4095,
            'rule': 'every n in [0,4096) plus seeded larger n through get_selfies_from_index/get_index_from_selfies/'
                    '_read_index_from_selfies; every tuple of length <= 3 over 16 index symbols, 2 non-index symbols and '
                    'None; non-trivial = n >= 1 (4095) plus distinct decoded values of the tuples',
            'exhaustive': True, 'samples': samples, 'violations': viol,
            'bounded_note': 'bounded stand-in executed on the real functions; not counted in discharged'}


def replay_input(d):
    spec = tuple(__import__('json').loads(__import__('json').dumps(d.get('spec', None))) or ()) or None
    from vf import core
    ld = core.Loaded()
    spec = tuple(ld.consts['INDEX_DOC'])
    inp = d['input']
    import selfies.grammar_rules as G
    if 'n' in inp:
        if inp['n'] < 0:
            try:
                G.get_selfies_from_index(inp['n'])
                return False, 'no IndexError'
            except IndexError:
                return True, 'IndexError raised'
        r = _check_n(inp['n'], spec)
        return r is None, r
    if 'Q' in inp:
        import selfies as sf
        Q, kind = inp['Q'], inp['smiles_shape']
        smi = ('N(' + 'C' * (Q + 1) + ')O') if kind == 'Branch' else ('N1' + 'C' * (Q + 1) + '1O')
        try:
            sel = sf.encoder(smi)
            back = sf.decoder(sel)
            n = back.count('C') + back.count('N') + back.count('O')
            return n == Q + 3, 'encoder/decoder gave %d atoms for Q=%d (%s...)' % (n, Q, sel[:60])
        except Exception as e:
            return False, 'raised %r' % (e,)
    tri = inp['symbols']
    want = 0
    for s in tri:
        want = want * 16 + (spec.index(s) if s in spec else 0)
    got = G.get_index_from_selfies(*tri)
    return got == want, 'got %r want %r' % (got, want)
