"""C01 - every SELFIES string decodes to a syntactically valid, valence-valid SMILES (DESIGN 7.1)."""
import json
import os
import random
import subprocess
import sys

ID = 'C01'
LEVEL = 'other'
TARGETS = ['selfies/grammar_rules.py::next_atom_state',
           'selfies/grammar_rules.py::next_branch_state',
           'selfies/grammar_rules.py::next_ring_state',
           'selfies/mol_graph.py::MolecularGraph.__len__',
           'selfies/mol_graph.py::MolecularGraph.get_atom',
           'selfies/mol_graph.py::MolecularGraph.get_bond_count',
           'selfies/mol_graph.py::MolecularGraph.has_bond',
           'selfies/mol_graph.py::MolecularGraph.get_dirbond',
           'selfies/mol_graph.py::MolecularGraph.add_atom',
           'selfies/mol_graph.py::MolecularGraph.add_bond',
           'selfies/mol_graph.py::MolecularGraph.add_ring_bond',
           'selfies/mol_graph.py::MolecularGraph.update_bond_order',
           'selfies/utils/smiles_utils.py::bond_to_smiles',
           'selfies/bond_constraints.py::get_bonding_capacity',
           'selfies/decoder.py::_form_rings_bilocally',
           'selfies/mol_graph.py::Atom.bonding_capacity',
           'selfies/grammar_rules.py::process_atom_symbol',
           'selfies/grammar_rules.py::_process_atom_selfies_no_cache']
ASSUMPTIONS = ["atom-symbol contracts (process_atom_symbol, _process_atom_selfies_no_cache, smiles_to_atom, tokenize_smiles) assume ASCII input of at most 4000 characters: Unicode digits matched by \\\\d and CPython's 4300-digit int() limit are recorded known findings", "regex match groups are modelled as SOME decomposition of the string into the pattern's top-level pieces (sound over-approximation of the greedy choice); functools.partial(Atom, **kw) is modelled as a heap object whose call constructs a fresh Atom", 'constraint-table values of type bool (True/False pass isinstance(value, int)) are not modelled; keys of the table passed to set_semantic_constraints are assumed to be str', 'lru_cache is modelled by a per-function memo flag (stale after a write of _current_constraints, clean after cache_clear()); the dict iteration order is abstract (ghost key vector enumerating exactly the present keys)', "graph-level contracts (mol_graph mutators, _form_rings_bilocally) cover integer bond orders and attribution off (the decoder side); the link between _bond_counts and the sum over incident bonds is carried by the mutators' whole-view postconditions, the finite-sum update law itself is a stated mathematical fact"]
EXPLANATION = (
    "Mixed. PROVED (deductive, all inputs and all tables - the capacity is a symbolic integer): the clip clauses of "
    "the state functions (bond order <= requested, <= state, <= capacity of the new atom; branch split "
    "binit + next == state; ring order <= state) and every further clause listed in coverage.clauses as proved. "
    "BOUNDED (not counted as proved): the output string is read back by an independent SMILES reader "
    "(spec/smiles_reader.py: balanced branches, legal ring labels opened and closed once, no self bond, no duplicate "
    "bond) and must denote exactly the graph the decoder built (atoms, bond orders, written neighbour order, "
    "fragments); every atom's bond-order sum + explicit H must not exceed its capacity under the table in force "
    "(independent capacity lookup); domain: exhaustive short strings over covering sets, ring-heavy and random long "
    "strings, 6 tables incl. capacity 0 and > 8. RDKit sanitisation of outputs over the robust alphabet under the "
    "default table runs in a /venv/bin/python subprocess (external tool, bounded).")


def check_output(s, tab):
    """-> None or (clause, detail, extra) for one decoder call on the real library."""
    from harness.common import decode_view, sf
    from spec import smiles_reader as R
    from spec.derivation import capacity
    try:
        out, v = decode_view(s)
    except sf.DecoderError:
        return None
    except Exception as e:
        return None   # C08's business
    nrings = sum(1 for (a, b) in v['bonds'] if (b in v['adj'][a] and a in v['adj'][b]))
    extra = {'output': out if len(out) < 300 else out[:300] + '...', 'n_rings': nrings}
    if out == '':
        return None if not v['atoms'] else ('C01:faithful', 'empty output for non-empty graph', extra)
    try:
        m = R.read_smiles(out)
    except R.SmilesSyntaxError as e:
        return ('C01:syntax', 'output is not well-formed SMILES: %s' % e.reason, extra)
    if len(m.atoms) != len(v['atoms']):
        return ('C01:faithful', 'atom count %d vs graph %d' % (len(m.atoms), len(v['atoms'])), extra)
    for i, a in enumerate(m.atoms):
        got = (a.element, a.isotope, a.chirality, a.hcount, a.charge)
        if got != v['atoms'][i] or a.aromatic:
            return ('C01:faithful', 'atom %d written as %r, graph has %r' % (i, got, v['atoms'][i]), extra)
    if dict(m.bonds) != v['bonds']:
        return ('C01:faithful', 'bonds read %r, graph has %r' % (sorted(m.bonds.items()), sorted(v['bonds'].items())),
                extra)
    for i in range(len(m.atoms)):
        written = [e[1] for e in m.neighbors[i] if e[0] == 'atom']
        if m.atoms[i].prev is not None:
            written = written[1:]
        if written != v['adj'][i]:
            return ('C01:faithful', 'neighbour order of atom %d read %r, graph has %r' % (i, written, v['adj'][i]),
                    extra)
    for i, a in enumerate(m.atoms):
        cap = capacity(tab, a.element, a.charge, 0)
        used = R.bond_order_sum(m, i) + (a.hcount or 0)
        if used > cap:
            return ('C01:valence', 'atom %d (%s) has %s bonds+H, capacity %d' % (i, a.token, used, cap), extra)
    return None


def _work(job):
    from harness.common import set_table
    tname, strings = job
    import selfies as sf
    set_table(tname)
    # caller-side mutation of every object the configuration API hands out must not change the table in force
    try:
        sf.decoder('[C][=N][O][S][P][F]')
        for name in ('default', 'octet_rule', 'hypervalent'):
            p = sf.get_preset_constraints(name)
            p.update({'N': 1, 'C': 1, 'F': 3, '?': 1})
        g = sf.get_semantic_constraints()
        g.update({'C': 0, 'O': 5, '?': 0})
    except Exception:
        pass
    tab = sf.get_semantic_constraints()
    n, nt, bad = 0, set(), []
    for s in strings:
        n += 1
        r = check_output(s, tab)
        if r is not None and sum(1 for b in bad if b['clause'] == r[0]) < 3:
            bad.append({'clause': r[0], 'detail': r[1], 'input': {'selfies': s if len(s) < 3000 else s[:3000], 'table': tname,
                        'full_len': len(s)}, 'observed': r[2]})
        if 'Ring' in s:
            nt.add(hash(s))
    return n, len(nt), bad


def long_strings(tier, seed):
    from harness import gen
    rnd = random.Random(seed)
    out = []
    for _ in range(1500 if tier == 'quick' else 30000):
        out.append(gen.ring_heavy(rnd, rnd.choice([10, 30, 80, 200])))
    for _ in range(1500 if tier == 'quick' else 30000):
        out.append(gen.rand_selfies(rnd, rnd.choice([10, 30, 100, 400])))
    out.append('[C][C][C][Ring1][Ring1]' * 99)       # 99 rings: two-digit labels up to %99
    out.append('[S]' * 40 + ''.join('[Ring2][C]%s' % x for x in gen.INDEXS) * 3)
    out.append(''.join('[C][Branch1][C][F]' for _ in range(50)))
    return out


def floor(ctx):
    from harness.par import pmap, chunks
    from harness.common import strings_upto
    from props import C02
    jobs = []
    L = 4 if ctx.tier == 'quick' else 5
    short = []
    for name in 'ABC':
        short += list(strings_upto(C02.SETS[name], L))
    longs = long_strings(ctx.tier, ctx.seed)
    tables = ['default', 'octet_rule', 'hypervalent', 'qonly0', 'tight', 'big']
    for t in tables:
        for ch in chunks(short if t in ('default', 'tight', 'big') else short[::5], 8):
            jobs.append((t, ch))
        for ch in chunks(longs, 4):
            jobs.append((t, ch))
    res = pmap(_work, jobs)
    viol = [b for r in res for b in r[2]]
    ev = sum(r[0] for r in res)
    # external sanitizer clause (bounded): robust-alphabet strings under the default table
    rd = rdkit_clause(ctx)
    viol += rd['violations']
    return {'evaluations': ev + rd['n'], 'distinct_nontrivial': sum(r[1] for r in res),
            'rule': 'all strings up to length %d over three 14-symbol covering sets, ring-heavy and random strings up to '
                    '400 symbols, a 99-ring string, under 6 tables (presets, {"?":0}, a table with capacity 0 and 12 '
                    'entries); each output re-read by the independent reader and compared with the decoder graph; '
                    '%d robust-alphabet outputs sanitised by RDKit; non-trivial = distinct inputs with a ring symbol, '
                    'per table' % (L, rd['n']),
            'exhaustive': False, 'samples': [{'selfies': '[C][C][C][Ring1][Ring1][#C]', 'table': 'default'}],
            'violations': viol, 'rdkit_checked': rd['n'],
            'bounded_note': 'bounded; not counted as proved'}


def rdkit_clause(ctx):
    import selfies as sf
    sf.set_semantic_constraints('default')
    alpha = sorted(sf.get_semantic_robust_alphabet())
    rnd = random.Random(ctx.seed + 1)
    pairs = []
    for _ in range(3000 if ctx.tier == 'quick' else 60000):
        s = ''.join(rnd.choice(alpha) for _ in range(rnd.choice([5, 15, 40, 100])))
        try:
            pairs.append((s, sf.decoder(s)))
        except Exception as e:
            pairs.append((s, None))
    code = ("import sys, json\nfrom rdkit import Chem, RDLogger\nRDLogger.DisableLog('rdApp.*')\n"
            "bad=[]\nfor i,l in enumerate(sys.stdin):\n    s=json.loads(l)\n    if s and Chem.MolFromSmiles(s) is None: bad.append(i)\n"
            "print(json.dumps(bad))\n")
    smi = [p[1] for p in pairs if p[1] is not None]
    if not os.path.exists('/venv/bin/python'):
        return {'n': 0, 'violations': []}
    p = subprocess.run(['/venv/bin/python', '-c', code], input='\n'.join(json.dumps(x) for x in smi),
                       capture_output=True, text=True)
    if p.returncode != 0:
        raise RuntimeError('rdkit subprocess failed: ' + p.stderr[-500:])
    bad = json.loads(p.stdout.strip().splitlines()[-1])
    ok_pairs = [q for q in pairs if q[1] is not None]
    viol = [{'clause': 'C01:sanitizer', 'detail': 'RDKit rejects %r' % ok_pairs[i][1],
             'input': {'selfies': ok_pairs[i][0], 'table': 'default'}, 'observed': {'output': ok_pairs[i][1]}}
            for i in bad[:3]]
    return {'n': len(smi), 'violations': viol}


def replay_input(d):
    from harness.common import set_table
    i = d['input']
    tab = set_table(i['table'])
    if d.get('clause') == 'C01:sanitizer':
        import selfies as sf
        out = sf.decoder(i['selfies'])
        code = "import sys\nfrom rdkit import Chem\nsys.exit(0 if Chem.MolFromSmiles(sys.argv[1]) is not None else 1)"
        rc = subprocess.run(['/venv/bin/python', '-c', code, out]).returncode
        return rc == 0, 'RDKit %s %r' % ('accepts' if rc == 0 else 'rejects', out)
    r = check_output(i['selfies'], tab)
    return r is None, r


def replay_known(ctx, k):
    """Known finding: ring labels above 99 are written as %100... (labels are never recycled)."""
    from harness.common import set_table
    w = k['witness']
    tab = set_table(w['table'])
    r = check_output(w['repeat'][0] * w['repeat'][1], tab)
    return r is not None and r[0] == k['clause'] and r[2]['n_rings'] >= 100
