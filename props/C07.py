"""C07 - any string over the semantically robust alphabet is a valid molecule (DESIGN 7.7)."""
import random

ID = 'C07'
LEVEL = 'other'
TARGETS = ['selfies/bond_constraints.py::set_semantic_constraints',
           'selfies/bond_constraints.py::get_bonding_capacity',
           'selfies/bond_constraints.py::get_semantic_robust_alphabet']
ASSUMPTIONS = ['constraint-table values of type bool (True/False pass isinstance(value, int)) are not modelled; keys of the table passed to set_semantic_constraints are assumed to be str', 'lru_cache is modelled by a per-function memo flag (stale after a write of _current_constraints, clean after cache_clear()); the dict iteration order is abstract (ghost key vector enumerating exactly the present keys)']
EXPLANATION = (
    "BOUNDED stand-in (not counted as proved) plus every deductive clause listed in coverage.clauses: for each of 12 "
    "accepted tables (presets, rare elements, multi-digit and negative charges, capacity 0 and > 8), switched in "
    "sequence inside one process, get_semantic_robust_alphabet() must equal the set the statement prescribes (16 "
    "index symbols, 9 branch symbols, [RingL]/[=RingL], and [b+key] for every key != '?' and every prefix whose order "
    "<= capacity), every symbol must be accepted by the decoder, and random strings over it must decode without "
    "error to a molecule that obeys the table (C01 monitor).")

TABLES = [
    'default', 'octet_rule', 'hypervalent',
    {'?': 8}, {'?': 0}, {'?': 3, 'C': 4, 'N': 0, 'O': 1, 'F': 2},
    {'?': 1, 'Fe': 6, 'Fe+2': 4, 'Fe+3': 3, 'U': 9, 'Xe': 0, 'Og': 2} if False else {'?': 1, 'Fe': 6, 'Fe+2': 4, 'Fe+3': 3, 'U': 9, 'Xe': 0},
    {'?': 12, 'C': 12, 'S': 10, 'P': 11, 'Si': 9},
    {'?': 2, 'C-1': 3, 'C+1': 3, 'N+1': 4, 'N-1': 2, 'O-1': 1, 'O+1': 3, 'B-1': 4, 'S-2': 0, 'Mn+7': 1},
    {'?': 4, 'H': 1, 'He': 0, 'Li': 1, 'Cl': 7, 'Br': 5, 'I': 3, 'Na+1': 0, 'Ca+2': 0},
    {'?': 5, 'C': 2, 'N': 1, 'O': 3, 'S': 0, 'P': 0},
    {'?': 6, 'Zr+4': 2, 'Ce+3': 1, 'W-2': 8},
]

INDEX = ("[C]", "[Ring1]", "[Ring2]", "[Branch1]", "[=Branch1]", "[#Branch1]", "[Branch2]", "[=Branch2]",
         "[#Branch2]", "[O]", "[N]", "[=N]", "[=C]", "[#C]", "[S]", "[P]")


def prescribed(tab):
    want = set(INDEX)
    for L in (1, 2, 3):
        want |= {'[Ring%d]' % L, '[=Ring%d]' % L, '[Branch%d]' % L, '[=Branch%d]' % L, '[#Branch%d]' % L}
    for key, cap in tab.items():
        if key == '?':
            continue
        for b, o in (('', 1), ('=', 2), ('#', 3)):
            if o <= cap:
                want.add('[%s%s]' % (b, key))
    return want


def check_table(t, rnd, nstr):
    import selfies as sf
    from props import C01
    out = []
    sf.set_semantic_constraints(t)
    tab = sf.get_semantic_constraints()
    alpha = sf.get_semantic_robust_alphabet()
    want = prescribed(tab)
    if set(alpha) != want:
        out.append(('C07:alphabet-contents', 'missing %r, unexpected %r' % (sorted(want - set(alpha))[:6],
                                                                            sorted(set(alpha) - want)[:6]), None))
    for sym in sorted(alpha):
        try:
            sf.decoder(sym)
            sf.decoder('[C][C]' + sym + sym)
        except Exception as e:
            out.append(('C07:symbols-accepted', 'decoder raises %s on alphabet symbol %r' % (type(e).__name__, sym), sym))
            break
    syms = sorted(alpha)
    n = 0
    for _ in range(nstr):
        s = ''.join(rnd.choice(syms) for _ in range(rnd.choice([3, 8, 20, 60, 300])))
        n += 1
        try:
            sf.decoder(s)
        except Exception as e:
            out.append(('C07:strings-decode', 'decoder raises %s on %r' % (type(e).__name__, s[:200]), s))
            break
        r = C01.check_output(s, tab)
        if r is not None:
            out.append(('C07:obeys-table', '%s: %s' % (r[0], r[1]), s))
            break
    return out, n + len(alpha)


def _work(job):
    order, seed, nstr = job
    rnd = random.Random(seed)
    bad, n = [], 0
    for ti in order:
        res, k = check_table(TABLES[ti], rnd, nstr)
        n += k
        for cl, d, s in res:
            if len(bad) < 6:
                bad.append({'clause': cl, 'detail': d, 'input': {'table': TABLES[ti], 'selfies': s, 'sequence': order}})
    import selfies as sf
    sf.set_semantic_constraints('default')
    return n, len(order), bad


def floor(ctx):
    from harness.par import pmap
    rnd = random.Random(ctx.seed)
    jobs = []
    for k in range(16):
        order = list(range(len(TABLES)))
        rnd.shuffle(order)
        jobs.append((order + order[:2], ctx.seed * 100 + k, 60 if ctx.tier == 'quick' else 1500))
    res = pmap(_work, jobs)
    return {'evaluations': sum(r[0] for r in res), 'distinct_nontrivial': len(TABLES),
            'rule': '12 accepted tables visited in 16 shuffled sequences (two revisited each); alphabet compared with the '
                    'prescribed set, every symbol decoded, random strings of 3..300 alphabet symbols decoded and judged by '
                    'the C01 monitor under that table; non-trivial = distinct tables', 'exhaustive': False,
            'samples': [{'table': TABLES[8]}], 'violations': [b for r in res for b in r[2]],
            'bounded_note': 'bounded; not counted as proved'}


def replay_input(d):
    i = d['input']
    rnd = random.Random(0)
    import selfies as sf
    res, _ = check_table(i['table'], rnd, 0)
    if i.get('selfies') and d['clause'] in ('C07:strings-decode', 'C07:obeys-table'):
        from props import C01
        tab = sf.get_semantic_constraints()
        try:
            sf.decoder(i['selfies'])
            r = C01.check_output(i['selfies'], tab)
        except Exception as e:
            r = repr(e)
        sf.set_semantic_constraints('default')
        return r is None, repr(r)
    sf.set_semantic_constraints('default')
    bad = [x for x in res if x[0] == d['clause']]
    return not bad, repr(bad[:1])
