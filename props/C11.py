"""C11 - see DESIGN 7.11 / 7.12 (shared history enumerator in harness/history.py)."""
ID = 'C11'
LEVEL = 'other'
TARGETS = ['selfies/bond_constraints.py::get_preset_constraints',
           'selfies/bond_constraints.py::get_semantic_constraints',
           'selfies/bond_constraints.py::set_semantic_constraints',
           'selfies/bond_constraints.py::get_bonding_capacity',
           'selfies/grammar_rules.py::process_atom_symbol',
           'selfies/grammar_rules.py::_process_atom_selfies_no_cache']
ASSUMPTIONS = ["atom-symbol contracts (process_atom_symbol, _process_atom_selfies_no_cache, smiles_to_atom, tokenize_smiles) assume ASCII input of at most 4000 characters: Unicode digits matched by \\\\d and CPython's 4300-digit int() limit are recorded known findings", "regex match groups are modelled as SOME decomposition of the string into the pattern's top-level pieces (sound over-approximation of the greedy choice); functools.partial(Atom, **kw) is modelled as a heap object whose call constructs a fresh Atom", 'constraint-table values of type bool (True/False pass isinstance(value, int)) are not modelled; keys of the table passed to set_semantic_constraints are assumed to be str', 'lru_cache is modelled by a per-function memo flag (stale after a write of _current_constraints, clean after cache_clear()); the dict iteration order is abstract (ghost key vector enumerating exactly the present keys)']
EXPLANATION = (
    "BOUNDED stand-in (not counted as proved) plus every deductive clause listed in coverage.clauses: enumerated "
    "histories of public API calls (constraint updates valid and invalid, caller-side mutation of every object the "
    "library returned or was given, encodes and decodes that fill the internal memo tables) are run on the real "
    "library; after every step the configuration (table, presets, robust alphabet) is compared with a reference model "
    "of the statement and the translation results with FRESH interpreters set to the same table.")


def floor(ctx):
    from harness import history
    return history.floor(ctx, ID)


def replay_input(d):
    from harness import history
    return history.replay(d)
