"""C18 - compatible=True is a conservative extension for pre-v2 symbols (DESIGN 7.18)."""
import itertools
import random
import re
import warnings

ID = 'C18'
LEVEL = 'other'
TARGETS = ['selfies/compatibility.py::modernize_symbol',
           'selfies/utils/smiles_utils.py::atom_to_smiles',
           'selfies/grammar_rules.py::process_branch_symbol',
           'selfies/grammar_rules.py::process_ring_symbol',
           'selfies/utils/smiles_utils.py::smiles_to_atom']
ASSUMPTIONS = ["atom-symbol contracts (process_atom_symbol, _process_atom_selfies_no_cache, smiles_to_atom, tokenize_smiles) assume ASCII input of at most 4000 characters: Unicode digits matched by \\\\d and CPython's 4300-digit int() limit are recorded known findings", "regex match groups are modelled as SOME decomposition of the string into the pattern's top-level pieces (sound over-approximation of the greedy choice); functools.partial(Atom, **kw) is modelled as a heap object whose call constructs a fresh Atom"]
EXPLANATION = (
    "PROVED for every ASCII symbol: modernize_symbol leaves a symbol that is neither a legacy branch/ring name nor an "
    "'...expl]' atom untouched (the conservative-extension clause at symbol level), maps the 21 legacy names to the "
    "documented modern names, and re-spells '[<bond><atom>expl]' keeping the bracket and the bond prefix; plus every "
    "deductive clause listed in coverage.clauses. The rest is a BOUNDED stand-in (not counted as proved). GROUND (finite, "
    "complete): the update table of the running module equals the documented legacy->modern mapping for all L, M in "
    "1..3. Bounded: (1) decoder(x, compatible=True) == decoder(x) for every modern-only string of the C02 covering "
    "domain; (2) for strings mixing modern and legacy symbols (all [BranchL_M], [Expl=RingL], [Expl#RingL], "
    "[Expl/RingL], [Expl\\RingL] and a grammar of [..expl] atom spellings) decoder(x, compatible=True) equals decoder of "
    "the string modernised token-wise by an independent moderniser; (3) without the flag the decoder behaves as the "
    "derivation spec says for a string containing out-of-grammar symbols (DecoderError exactly when one is reached).")


def doc_mapping():
    m = {}
    for L in (1, 2, 3):
        for M, b in ((1, ''), (2, '='), (3, '#')):
            m['[Branch%d_%d]' % (L, M)] = '[%sBranch%d]' % (b, L)
        m['[Expl=Ring%d]' % L] = '[=Ring%d]' % L
        m['[Expl#Ring%d]' % L] = '[#Ring%d]' % L
        m['[Expl/Ring%d]' % L] = '[//Ring%d]' % L
        m['[Expl\\Ring%d]' % L] = '[\\\\Ring%d]' % L
    return m


ORGANIC = {"B", "C", "N", "O", "S", "P", "F", "Cl", "Br", "I"}
_EXPL = re.compile(r'^\[([=#/\\]?)(\d*)([A-Z][a-z]?)(@{0,2})(H\d?)?(\++|-+|[+-]\d+)?expl\]$', re.ASCII)


def modernize(sym):
    """Independent moderniser (documentation + CHANGELOG v2.0.0): table entries, and [..expl] atoms re-spelled in the
    standard form (H -> H1, + -> +1, ++ -> +2, explicit H0 only when the symbol would otherwise be an organic-subset
    atom)."""
    m = doc_mapping()
    if sym in m:
        return m[sym]
    mm = _EXPL.match(sym)
    if not mm:
        return sym
    from spec.derivation import ELEMENTS
    b, iso, el, chi, h, ch = mm.groups()
    if el not in ELEMENTS:
        return sym
    hc = 0 if not h else (1 if h == 'H' else int(h[1:]))
    c = 0
    if ch:
        c = int(ch[1:]) if ch[1:].isdigit() else len(ch)
        c = c if ch[0] == '+' else -c
    iso_s = str(int(iso)) if iso else ''
    body = iso_s + el + chi
    if hc:
        body += 'H%d' % hc
    elif not iso_s and not chi and c == 0 and el in ORGANIC:
        body += 'H0'
    if c:
        body += '%+d' % c
    return '[%s%s]' % (b, body)


def outcome(s, **kw):
    import selfies as sf
    try:
        with warnings.catch_warnings():
            warnings.simplefilter('ignore')
            return ('ok', sf.decoder(s, **kw))
    except sf.DecoderError:
        return ('DecoderError',)
    except Exception as e:
        return ('other', type(e).__name__, str(e)[:80])


def legacy_atoms():
    out = []
    for b in ('', '=', '#', '/', '\\'):
        for body in ('C', 'N', 'O', 'C@@H', 'C@H', 'C@', 'O+', 'O-', 'N+', 'NH', 'NH+', 'NH2+', '13C', '13CH3', 'Fe++',
                     'Fe+2', 'S--', 'CH3', 'H', '2H', 'Si', 'Cl-', 'Na+', 'C-', 'B-', 'P@@', 'CH0', 'N+1', 'O-1'):
            out.append('[%s%sexpl]' % (b, body))
    return out


MODERN = ['[C]', '[=N]', '[O]', '[F]', '[Branch1]', '[=Branch1]', '[Ring1]', '[=Ring2]', '[#C]', '.']


def _work(job):
    kind, items = job
    import selfies as sf
    from props import C02
    tab = sf.get_semantic_constraints()
    n, bad, nt = 0, [], set()
    for s in items:
        n += 1
        if kind == 'modern':
            a, b = outcome(s), outcome(s, compatible=True)
            if a != b and len(bad) < 3:
                bad.append({'clause': 'C18:modern-unchanged', 'input': {'selfies': s},
                            'detail': 'decoder(x) -> %r, decoder(x, compatible=True) -> %r' % (a, b)})
        else:
            toks = re.findall(r'\[[^\]]*\]|\.', s)
            mod = ''.join(modernize(t) for t in toks)
            a, b = outcome(s, compatible=True), outcome(mod)
            if a != b and len(bad) < 3:
                bad.append({'clause': 'C18:legacy-equivalent', 'input': {'selfies': s, 'modernised': mod},
                            'detail': 'decoder(x, compatible=True) -> %r, decoder(modernised x) -> %r' % (a, b)})
            r = C02.compare(s, tab)
            if r is not None and len(bad) < 3:
                bad.append({'clause': 'C18:rejected-without-flag', 'input': {'selfies': s},
                            'detail': 'without the flag: ' + r})
            nt.add(hash(s))
    return n, len(nt), bad


def floor(ctx):
    import selfies as sf
    from harness.par import pmap, chunks
    from harness.common import strings_upto
    sf.set_semantic_constraints('default')
    L = 4 if ctx.tier == 'quick' else 5
    modern = list(strings_upto(MODERN, L))
    legacy = list(doc_mapping()) + legacy_atoms()
    rnd = random.Random(ctx.seed)
    mixed = []
    for sym in legacy:
        for ctxt in ('%s', '[C]%s', '[C][C][C]%s[C]', '[C][=C]%s[Ring1][C][O]', '[C][Branch1][Ring1]%s[C][F]', '[C].%s[C]',
                     '[C][C][C][C]%s[Ring1]', '[N]%s[Branch1_2][C][O][F]', '[O]%s%s'):
            mixed.append(ctxt.replace('%s', sym))
    for _ in range(3000 if ctx.tier == 'quick' else 40000):
        k = rnd.choice([2, 4, 7, 12])
        mixed.append(''.join(rnd.choice(legacy if rnd.random() < 0.35 else MODERN[:-1] + ['[Ring1]', '[Branch2]', '[S]'])
                             for _ in range(k)))
    jobs = [('modern', ch) for ch in chunks(modern, 16)] + [('mixed', ch) for ch in chunks(mixed, 16)]
    res = pmap(_work, jobs)
    return {'evaluations': sum(r[0] for r in res), 'distinct_nontrivial': sum(r[1] for r in res),
            'rule': 'modern-only strings: all strings up to length %d over 10 symbols; legacy: every table symbol (21) and '
                    '%d [..expl] atom spellings (5 bond prefixes x 29 bodies) in 9 contexts each, plus seeded mixtures of '
                    '2-12 tokens; non-trivial = distinct strings containing a legacy symbol' % (L, len(legacy_atoms())),
            'exhaustive': False, 'samples': ['[C][Branch1_2][C][O][F]', '[C@@Hexpl][C]'],
            'violations': [b for r in res for b in r[2]], 'bounded_note': 'bounded; not counted as proved'}


def ground(ctx):
    import sys
    import selfies  # noqa
    C = sys.modules['selfies.compatibility']
    want = doc_mapping()
    return [{'name': 'C18:update-table==documented', 'ok': dict(C._SYMBOL_UPDATE_TABLE) == want, 'n': len(want),
             'detail': 'selfies.compatibility._SYMBOL_UPDATE_TABLE vs the documented mapping',
             'input': 'selfies.compatibility._SYMBOL_UPDATE_TABLE'}]


def replay_input(d):
    import selfies as sf
    from props import C02
    sf.set_semantic_constraints('default')
    i = d['input']
    if d['clause'] == 'C18:modern-unchanged':
        a, b = outcome(i['selfies']), outcome(i['selfies'], compatible=True)
        return a == b, '%r vs %r' % (a, b)
    if d['clause'] == 'C18:legacy-equivalent':
        a, b = outcome(i['selfies'], compatible=True), outcome(i['modernised'])
        return a == b, '%r vs %r' % (a, b)
    r = C02.compare(i['selfies'], sf.get_semantic_constraints())
    return r is None, repr(r)
