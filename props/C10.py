"""C10 - encoder output is always decodable, standardised and stable under re-encoding (DESIGN 7.10)."""
ID = 'C10'
LEVEL = 'other'
TARGETS = ['selfies/grammar_rules.py::get_selfies_from_index',
           'pow16_pos',
           'div_div16',
           'selfies/encoder.py::_bond_to_selfies',
           'selfies/encoder.py::_ring_bonds_to_selfies',
           'selfies/utils/smiles_utils.py::atom_to_smiles',
           'selfies/grammar_rules.py::process_atom_symbol',
           'selfies/grammar_rules.py::_process_atom_selfies_no_cache',
           'selfies/utils/smiles_utils.py::smiles_to_atom']
ASSUMPTIONS = ["atom-symbol contracts (process_atom_symbol, _process_atom_selfies_no_cache, smiles_to_atom, tokenize_smiles) assume ASCII input of at most 4000 characters: Unicode digits matched by \\\\d and CPython's 4300-digit int() limit are recorded known findings", "regex match groups are modelled as SOME decomposition of the string into the pattern's top-level pieces (sound over-approximation of the greedy choice); functools.partial(Atom, **kw) is modelled as a heap object whose call constructs a fresh Atom"]
EXPLANATION = ('Mixed. PROVED: get_selfies_from_index yields at most three index symbols below 16^3 and only symbols of the index alphabet (C16 contracts) and every clause listed in coverage.clauses. BOUNDED (not counted as proved): decoder accepts encoder(s) under the same table; equivalent same-order spellings give the identical SELFIES string; encoder(decoder(encoder(s))) == encoder(s); over the corpus, special bracket spellings and ring/branch lengths needing 1-2 index symbols.')


def inputs(ctx):
    from harness import enc, encfloor
    c = enc.corpus()
    sel = c[1::3] if ctx.tier == 'quick' else c
    from harness import smifuzz
    fz = smifuzz.strings(ctx.seed + 1, 1200 if ctx.tier == 'quick' else 15000)
    return encfloor.SPECIAL + encfloor.long_chain_cases() + sel + fz


def floor(ctx):
    from harness import encfloor
    return encfloor.run(ctx, ID, inputs(ctx), 2 if ctx.tier == 'quick' else 6, RULE)


RULE = ("389 hand-written special cases (harness/encfloor.SPECIAL, grown with every seeded change that was first missed) (stereo centres opening/closing rings in all label orders, implicit-H centres, marks on ring closures, bracket spelling variants, aromatic systems, ring/branch lengths needing 1-2 index symbols) plus a 1/3 (quick) or full (thorough) subset of the committed 3272-molecule corpus sampled from the repository's datasets; plus grammar-fuzzed SMILES (harness/smifuzz.py: bracket atoms with every field, bond symbols on ring digits, %nn labels, ring digits before and after branches, several fragments); each with N same-order respellings (ring-label policy, explicit '-', bracket variants) and N random re-traversals (atom order changed) written by spec/smiles_writer.py; encoder -> decoder (-> encoder) on the real library under a relaxed table, judged by the independent reader; non-trivial = distinct SELFIES strings produced")


def replay_input(d):
    from harness import encfloor
    return encfloor.replay(d)


def replay_known(ctx, k):
    import selfies as sf
    from harness import enc
    sf.set_semantic_constraints('default')
    r = enc.analyze(k['witness']['smiles'])
    return any(c == 'C10:stable' for c, _ in r)
