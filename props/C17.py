"""C17 - attribution is observation-only and truthful about tokens (DESIGN 7.17)."""
import random
import re

ID = 'C17'
LEVEL = 'other'
TARGETS = []
EXPLANATION = (
    "BOUNDED stand-in (not counted as proved) plus every deductive clause listed in coverage.clauses: on the C02 "
    "covering domain (multi-fragment strings, [nop], nested branches, rings), ring-heavy strings with two-digit ring "
    "labels and a corpus of SMILES: the string returned with attribute=True equals the one returned without; every "
    "decoder attribution entry's token is found in the output ending at the reported character index; every "
    "contributing input token is the symbol at the reported position (counting symbols, ignoring [nop] and '.'); every "
    "output atom is attributed to the atom symbol that created it together with the enclosing branch symbols (from the "
    "independent derivation spec); every SELFIES atom symbol of the encoder is attributed to the SMILES atom token it "
    "was made from (independent reader).")

BOND_TOKENS = {'=', '#', '/', '\\'}


def check_decoder(s, tab):
    import selfies as sf
    from spec import derivation as D
    try:
        plain = sf.decoder(s)
    except sf.DecoderError:
        try:
            sf.decoder(s, attribute=True)
            return [('C17:observation-only', 'decoder raises without attribute but returns with it', {})]
        except sf.DecoderError:
            return []
        except Exception as e:
            return [('C17:observation-only', 'attribute=True raised %r' % (e,), {})]
    try:
        out, maps = sf.decoder(s, attribute=True)
    except Exception as e:
        return [('C17:observation-only', 'decoder returns %r without attribute but raised %r with it' % (plain, e), {})]
    res = []
    if out != plain:
        res.append(('C17:observation-only', 'decoder returns %r with attribute=True and %r without' % (out, plain), {}))
        return res
    syms = [t for t in re.findall(r'\[[^\]]*\]', s) if t != '[nop]']
    try:
        g = D.derive(s, tab)
    except Exception:
        g = None
    feats = {'multi_fragment_output': '.' in out, 'truncated_index_before_dot': _truncated_before_dot(s, tab)}
    atom_k = 0
    for am in maps:
        lo = am.index - len(am.token) + 1
        if lo < 0 or out[lo:am.index + 1] != am.token:
            res.append(('C17:output-position', 'token %r reported ending at %d, output %r has %r there'
                        % (am.token, am.index, out, out[max(lo, 0):am.index + 1]), feats))
            break
    for am in maps:
        for a in (am.attribution or []):
            if not (0 <= a.index < len(syms)) or syms[a.index] != a.token:
                res.append(('C17:input-position', 'input token %r reported at symbol %d, symbols are %r'
                            % (a.token, a.index, syms[:20]), feats))
                break
        else:
            continue
        break
    if g is not None and not res:
        atoms = [am for am in maps if am.token not in BOND_TOKENS]
        if len(atoms) != len(g.atoms):
            res.append(('C17:atom-attribution', '%d atom entries for %d atoms' % (len(atoms), len(g.atoms)), feats))
        else:
            for k, am in enumerate(atoms):
                got = [(a.index, a.token) for a in (am.attribution or [])]
                if got != g.atom_attr[k]:
                    res.append(('C17:atom-attribution', 'atom %d (%s) attributed to %r, created by %r'
                                % (k, am.token, got, g.atom_attr[k]), feats))
                    break
    return res


def _truncated_before_dot(s, tab):
    """Known-finding class: a fragment other than the last ends inside the index symbols of a ring/branch symbol."""
    frags = s.split('.')
    from spec import derivation as D
    for f in frags[:-1]:
        toks = [t for t in re.findall(r'\[[^\]]*\]', f) if t != '[nop]']
        for cut in (1, 2, 3):
            if len(toks) >= 1:
                for back in range(1, min(3, len(toks)) + 1):
                    c = D.classify(toks[-back])
                    if c and c[0] in ('branch', 'ring') and c[2] > back - 1:
                        return True
    return False


_LEX = re.compile(r'(\[[^\]]*\])|(Cl|Br|[BCNOSPFI]|[bcnosp])|(%\d\d|\d)|([-=#$:/\\])|([()])|(\.)')
_CONV = {}


def _lex(smi):
    """independent lexing of a SMILES string: (kind, text) with kind in atom / ring / bond / paren / dot"""
    out, i = [], 0
    while i < len(smi):
        mm = _LEX.match(smi, i)
        if not mm:
            return None
        kind = ('atom', 'atom', 'ring', 'bond', 'paren', 'dot')[mm.lastindex - 1]
        out.append((kind, mm.group(0)))
        i = mm.end()
    return out


def _atom_indices(smi):
    import selfies as sf
    out, maps = sf.encoder(smi, attribute=True)
    idx = []
    for am in maps:
        for a in (am.attribution or [])[:1]:
            idx.append((a.index, a.token))
    return idx


def _convention():
    """The index the encoder reports for a SMILES token is not documented.  It is calibrated here on five tiny
    molecules of the running library (does a dot / a parenthesis / a ring number / a bond character before an atom /
    before a ring number take a position of its own?); every other input must then follow the same convention."""
    if _CONV:
        return _CONV.get('w')
    try:
        def last(smi):
            return max(i for i, t in _atom_indices(smi))
        w = {'dot': last('C.C') - 1, 'paren': (last('C(C)C') - 2) / 2, 'ring': (last('C1CC1C') - 3) / 2,
             'bond_atom': last('C=CC') - 2}
        w['bond_ring'] = (last('C=1CC=1C') - 3 - 2 * w['ring']) / 2
        ok = all(v in (0, 1) for v in w.values()) and last('CC') == 1
    except Exception:
        ok, w = False, None
    _CONV['w'] = w if ok else None
    return _CONV['w']


def _index_consistency(smi, maps, m):
    """reported (index, token) of every SELFIES atom symbol names the SMILES atom token at that position under the
    library's own (calibrated) lexical convention"""
    w = _convention()
    items = _lex(smi)
    if w is None or items is None:
        return None
    pos, p = [], 0
    for j, (kind, text) in enumerate(items):
        if kind == 'atom':
            pos.append((p, text))
            p += 1
        elif kind == 'bond':
            nxt = items[j + 1][0] if j + 1 < len(items) else None
            p += w['bond_ring'] if nxt == 'ring' else w['bond_atom']
        else:
            p += w[kind]
    want = {int(a): t for a, t in pos}
    for am in maps:
        at = am.attribution or []
        if not at:
            continue
        a = at[0]
        if a.token in [t for _, t in pos] and want.get(a.index) != a.token and not (
                'Ring' in am.token or 'Branch' in am.token):
            return ('SELFIES symbol %r is attributed to token %r at position %d, but position %d of %r holds %r '
                    '(positions as the library itself counts them on calibration inputs: %r)'
                    % (am.token, a.token, a.index, a.index, smi, want.get(a.index), w))
    return None


def check_encoder(smi):
    import selfies as sf
    from spec import smiles_reader as R
    try:
        plain = sf.encoder(smi)
    except sf.EncoderError:
        return []
    try:
        out, maps = sf.encoder(smi, attribute=True)
    except Exception as e:
        return [('C17:observation-only', 'encoder returns without attribute but raised %r with it' % (e,), {})]
    if out != plain:
        return [('C17:observation-only', 'encoder returns %r with attribute=True and %r without' % (out, plain), {})]
    toks = re.findall(r'\[[^\]]*\]|\.', out)
    res = []
    bad_idx = _index_consistency(smi, maps, None)
    if bad_idx:
        res.append(('C17:encoder-index-consistent', bad_idx, {}))
    try:
        m = R.read_smiles(smi)
    except R.SmilesSyntaxError:
        return res
    syms = [t for t in toks if t != '.']
    k = 0
    import sys
    from spec import derivation as D
    for am in maps:
        c = D.classify(am.token)
        if c is None or c[0] != 'atom':
            continue
        if am.token in D.INDEX and False:
            continue
        # atom symbols appear in atom order; index symbols that look like atoms are attributed to bonds, skip those
        if not am.attribution:
            continue
        if k < len(m.atoms) and am.attribution and am.attribution[0].token == m.atoms[k].token and \
                am.token[1:].lstrip('=#/\\').startswith(''):
            k += 1
    n_atom_syms = 0
    # direct check: the i-th derived atom symbol (by decoding order) maps to the i-th SMILES atom token
    atom_maps = []
    for am in maps:
        c = D.classify(am.token)
        if c and c[0] == 'atom' and am.attribution and len(am.attribution) >= 1:
            atom_maps.append(am)
    # index symbols such as [C] or [O] following a ring/branch symbol carry the bond's attribution; they are told
    # apart by position: walk the token list with the decoder's own consumption pattern
    pos, real_atoms = 0, []
    i = 0
    toks = syms          # positions count symbols, '.' ignored (the convention the statement uses for decoder input)
    while i < len(toks):
        t = toks[i]
        c = D.classify(t)
        if c and c[0] in ('branch', 'ring'):
            i += 1 + c[2]
            continue
        if c and c[0] == 'atom':
            real_atoms.append(i)
        i += 1
    # the statement pins the association (SELFIES atom symbol <- SMILES atom token), not an index convention for the
    # encoder's own output tokens, so entries are matched in order as a subsequence of the attribution list
    ptr = 0
    for k, ti in enumerate(real_atoms):
        if k >= len(m.atoms):
            break
        found = False
        while ptr < len(maps):
            am = maps[ptr]
            ptr += 1
            at = am.attribution or []
            if am.token == toks[ti] and at and at[0].token == m.atoms[k].token:
                found = True
                break
        if not found:
            res.append(('C17:encoder-attribution', 'SELFIES atom symbol %r (atom %d) has no attribution entry naming the '
                        'SMILES token %r it was made from; entries: %r'
                        % (toks[ti], k, m.atoms[k].token,
                           [(a.token, [(x.index, x.token) for x in (a.attribution or [])]) for a in maps][:12]), {}))
            break
    return res


def _work(job):
    kind, tname, items = job
    from harness.common import set_table
    import selfies as sf
    tab = set_table(tname) if kind == 'dec' else None
    if kind == 'enc':
        from harness import enc
        sf.set_semantic_constraints(enc.relaxed_table())
    n, bad, nt = 0, [], set()
    cnt = {}
    for s in items:
        n += 1
        try:
            r = check_decoder(s, tab) if kind == 'dec' else check_encoder(s)
        except Exception as e:
            r = [('C17:harness-exception', 'the attribution checker itself failed on this input: %r' % (e,), {})]
        for cl, d, f in r:
            key = (cl, tuple(sorted(f.items())))
            cnt[key] = cnt.get(key, 0) + 1
            if cnt[key] <= 2:
                bad.append({'clause': cl, 'detail': d, 'input': {'selfies' if kind == 'dec' else 'smiles': s, 'table': tname},
                            'features': f})
        if '.' in s or 'Branch' in s or '(' in s:
            nt.add(hash(s))
    return n, len(nt), bad


def floor(ctx):
    from harness.par import pmap, chunks
    from harness.common import strings_upto
    from harness import gen, enc
    from props import C02
    L = 4 if ctx.tier == 'quick' else 5
    dec = []
    for name in 'AB':
        dec += list(strings_upto(C02.SETS[name], L))
    rnd = random.Random(ctx.seed)
    for _ in range(1500 if ctx.tier == 'quick' else 20000):
        dec.append(gen.rand_selfies(rnd, rnd.choice([6, 15, 40]), dot=0.08, nop=0.08))
        dec.append(gen.ring_heavy(rnd, rnd.choice([10, 40, 90])))
    dec.append('[C][C][C][Ring1][Ring1]' * 12 + '[N][Branch1][C][F][=O]')
    # bond tokens in front of two-digit ring labels (=%11, #%12, /%13), atoms and branches after them, several fragments
    base10 = '[C][C][C][Ring1][Ring1]' * 10
    dec.append(base10 + '[S][C][C][=Ring1][Ring1][C][C][=Ring1][Ring1][S][C][C][#Ring1][Ring1][C][Branch1][C][Cl][O]')
    dec.append(base10 + '[C][/C][=C][-/Ring1][Ring2][Br].[C][O]')
    dec.append('[C][O].' + base10 + '[P][C][C][=Ring1][Ring1][Branch1][C][F][N].[S][C][C][=Ring1][Ring1]')
    dec.append(base10 + '[Si][C][C][C][=Ring1][Ring2][=Ring1][Ring1][Cl]')
    jobs = [('dec', 'default', ch) for ch in chunks(dec, 24)]
    cor = enc.corpus()
    from harness import encfloor
    lead = ['=CC', '#CC(C)C1CC1', '/C=C/C', '-CC', 'C=1CC=1C', 'C-1CC-1', 'C=%11CC=%11C', '=C1CC1', 'C/1=C/CCCCCC1', '\\C=C/C',
            'C(=O)(-C)C', 'C.=CC', 'CC(.C)C=O', 'C-C-C', 'C1=CC=1.C=1CC=1']
    from harness import smifuzz
    fz = smifuzz.strings(ctx.seed + 3, 800 if ctx.tier == 'quick' else 10000)
    jobs += [('enc', None, ch) for ch in chunks(lead + encfloor.SPECIAL + fz + cor[:: (6 if ctx.tier == 'quick' else 1)], 8)]
    res = pmap(_work, jobs)
    viol = [b for r in res for b in r[2]]
    return {'evaluations': sum(r[0] for r in res), 'distinct_nontrivial': sum(r[1] for r in res),
            'rule': 'decoder: all strings up to length %d over two 14-symbol covering sets (with ".", [nop], branches, '
                    'rings), seeded random and ring-heavy strings (>= 10 rings: two-digit labels); encoder: special cases '
                    'and a corpus subset; non-trivial = distinct inputs with a dot or a branch' % L,
            'exhaustive': False, 'samples': ['[C][O].[N][F]', '[C][Branch1][C][F][nop][O]'],
            'violations': viol, 'bounded_note': 'bounded; not counted as proved'}


def replay_input(d):
    from harness.common import set_table
    import selfies as sf
    i = d['input']
    if 'selfies' in i:
        r = check_decoder(i['selfies'], set_table(i['table']))
    else:
        from harness import enc
        sf.set_semantic_constraints(enc.relaxed_table())
        r = check_encoder(i['smiles'])
    bad = [x for x in r if x[0] == d['clause']]
    return not bad, repr(bad[:1])


def replay_known(ctx, k):
    from harness.common import set_table
    w = k['witness']
    r = check_decoder(w['selfies'], set_table(w['table']))
    return any(c == 'C17:input-position' for c, _, _ in r)
