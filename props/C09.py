"""C09 - encoder is total: returns or raises EncoderError, always terminates (DESIGN 7.9)."""
import random
import time

ID = 'C09'
LEVEL = 'other'
TARGETS = ['selfies/grammar_rules.py::get_selfies_from_index',
           'pow16_pos',
           'div_div16',
           'selfies/utils/smiles_utils.py::smiles_to_bond',
           'selfies/utils/smiles_utils.py::bond_to_smiles',
           'selfies/encoder.py::_check_bond_constraints',
           'selfies/utils/smiles_utils.py::atom_to_smiles',
           'selfies/utils/smiles_utils.py::smiles_to_atom',
           'selfies/utils/smiles_utils.py::tokenize_smiles']
ASSUMPTIONS = ["atom-symbol contracts (process_atom_symbol, _process_atom_selfies_no_cache, smiles_to_atom, tokenize_smiles) assume ASCII input of at most 4000 characters: Unicode digits matched by \\\\d and CPython's 4300-digit int() limit are recorded known findings", "regex match groups are modelled as SOME decomposition of the string into the pattern's top-level pieces (sound over-approximation of the greedy choice); functools.partial(Atom, **kw) is modelled as a heap object whose call constructs a fresh Atom"]
EXPLANATION = (
    "Mixed. PROVED: exception-freedom obligations of the functions under contract listed in functions_under_contract "
    "(each operation that can raise is proved safe or covered by the function's raises clause; get_selfies_from_index "
    "raises only IndexError and only for negative arguments, which the encoder never passes). BOUNDED (not counted as "
    "proved): a grammar-directed junk SMILES generator (every token kind in every position, mismatched / duplicate / "
    "self-referencing ring labels, ':' on atoms that cannot be aromatic, '%', unclosed brackets, Unicode, long inputs) x "
    "the four flag combinations; the monitor accepts only a return value or EncoderError and checks a wall-clock cap.")

PIECES = ['C', 'N', 'O', 'c', 'n', 'o', 's', 'F', 'Cl', 'Br', 'B', 'P', 'S', 'I', '[C]', '[CH]', '[C@H]', '[C@@]', '[nH]',
          '[N+]', '[O-]', '[Fe+2]', '[13C]', '[2H]', '[NH4+]', '[se]', '[Cu]', '[Na]', '[H]', '[C:1]', '[CH3:12]', '(', ')',
          '(', ')', '1', '2', '3', '1', '2', '%10', '%11', '%1', '%', '%1a', '0', '9', '-', '=', '#', ':', '/', '\\', '$', '*',
          '.', '.', '[', ']', '[]', '[C', 'C]', '[c+]', '[Xx]', '[C@@@]', '[CHH]', '[C+-]', '[C++-]', '[C-+]', '[+C]', '[1]',
          '[H+]', '[C@TH1]', '[C:]', '[C:a]', '[12]', '[CH1.5]', '[C+1.5]', ' ', '\t', '\n', 'é', '٣', '[٣C]', '[C+١]',
          '[CH٣]', '%٣٣', '١', 'X', 'x', 'R', 'a', 'b', 'l', 'r', 'Cc', 'cC', 'c1', 'C1', 'c:c', 'C:C', 'F:F', 'c:1', 'C=1',
          'c=c', 'C#C', 'C$C', 'C/C', 'C\\C', '/C', 'C/', '=C', 'C=', '(C)', '()', '(C', 'C)', '((C))', 'C(C)(C)', 'C(', ')C',
          'C11', 'C1C1', 'C12CC12', 'C1CC1', 'C1.C1', 'C1', '1C', 'C1CC2', 'C=1CC-1', 'C=1CC#1', 'C/1CC\\1', 'C%10CC%10',
          'C%10CC%11', '[Cu]:[Cu]', '[Na]:[Na]', 'c1ccccc1', 'c1cccc1', 'cc', 'c', 'C1=CC=CC=C1', 'c1ccc1', 'n1cccc1',
          '[c-]1cccc1', '[c-]1ccccc1', '[n+]1ccccc1', '[cH-]1cccc1', '[c]1ccccc1', '[b-]1ccccc1', 'b1ccccc1', '[si]1ccccc1',
          '[te]1cccc1', '[as]1ccccc1', 'p1ccccc1', '[al]1ccccc1',
          # bond symbols on ring-closure digits, with elements that can and cannot be aromatic
          ':1', ':2', '=1', '#1', '/1', '\\1', ':%10', '=%10', 'C:1CCF1', 'F:1CC1', '[Cu]:1CC1', 'C:1CC:1', 'C=1CC=1',
          'F1', 'F:', ':F', 'Cl:1', '[Na]1', '[Na]:1', 'c:1', 'C:1', 'N:1', 'S:1', 'B:1', '[Si]:1', 'I:1',
          # characters that str.isdigit()/isnumeric()/isalpha() accept but int()/the element tables do not
          '²', '①', '½', '٣', '%1²', '%²²', '%①①', 'C²CC²', 'C%1²CC%1²', 'Ⅷ', '一', 'µ', 'ß', 'Ω', 'ǅ', 'ⅰ',
          '[²C]', '[C²]', '[CH²]', '[C+²]', '[C:²]']


def run_one(s, strict, attribute):
    import selfies as sf
    t0 = time.time()
    from harness import watchdog
    try:
        r = watchdog.call(lambda: sf.encoder(s, strict=strict, attribute=attribute), 45)
        res = ('ok',)
        if attribute and not (isinstance(r, tuple) and len(r) == 2 and isinstance(r[0], str)):
            res = ('bad-result', repr(r)[:100])
        if not attribute and not isinstance(r, str):
            res = ('bad-result', repr(r)[:100])
    except sf.EncoderError:
        res = ('EncoderError',)
    except watchdog.Hang:
        watchdog.note_hang()
        return ('slow', 'no result after 45 s')
    except BaseException as e:
        res = ('escaped', type(e).__name__, str(e)[:120])
    if time.time() - t0 > 60:
        return ('slow', time.time() - t0)
    return res


KNOWN_CLASSES = {
    'self_ring': lambda s: None,
}


def features(s, r):
    import re
    f = {}
    if r[0] == 'escaped':
        f['exception'] = r[1]
        # decidable classes of the recorded findings
        f['self_ring_closure'] = bool(re.search(r'(\d|%\d\d)(?:[-=#:/\\]?)\1', s)) and r[1] == 'IndexError'
        f['aromatic_bond_on_non_aromatic_element'] = (':' in s) and r[1] == 'KeyError'
    return f


def _work(job):
    n, bad, nt = 0, [], set()
    cnt = {}
    from harness import watchdog
    for s in job:
        if watchdog.hang_seen():
            break       # a call of this run did not return: reported; further hanging inputs would only cost time
        for strict in (True, False):
            for attr in (False, True):
                n += 1
                r = run_one(s, strict, attr)
                if r[0] not in ('ok', 'EncoderError'):
                    f = features(s, r)
                    key = (r[1] if len(r) > 1 else r[0], tuple(sorted(f.items())))
                    cnt[key] = cnt.get(key, 0) + 1
                    if cnt[key] <= 1:
                        bad.append({'clause': 'C09:total', 'detail': repr(r), 'features': f,
                                    'input': {'smiles': s if len(s) < 2000 else s[:200] + '...(%d chars)' % len(s),
                                              'strict': strict, 'attribute': attr}})
                if r[0] == 'EncoderError':
                    nt.add(hash(s))
    return n, len(nt), bad


def domain(tier, seed):
    from harness import enc
    rnd = random.Random(seed)
    out = list(PIECES)
    out += [a + b for a in PIECES for b in PIECES]
    for _ in range(8000 if tier == 'quick' else 150000):
        out.append(''.join(rnd.choice(PIECES) for _ in range(rnd.choice([3, 4, 6, 10, 25]))))
    cor = enc.corpus()
    for s in cor[:: (8 if tier == 'quick' else 1)]:
        # corrupt a real molecule: delete / duplicate / swap / insert a piece
        k = rnd.randrange(len(s))
        op = rnd.randrange(4)
        if op == 0:
            out.append(s[:k] + s[k + 1:])
        elif op == 1:
            out.append(s[:k] + s[k] + s[k:])
        elif op == 2:
            out.append(s[:k] + rnd.choice(PIECES) + s[k:])
        else:
            out.append(s[:k] + s[k:][::-1])
    k = 1 if tier == 'quick' else 4
    out.append('C' * (5000 * k))
    out.append('C(C)' * 300)
    out.append('C(' * 300 + 'C' + ')' * 300)
    out.append('C1' + 'C' * 5000 + '1')
    out.append('C(' + 'C' * 5000 + ')F')
    out.append('C1CC1' * 2000)
    out.append('(' * 20000)
    out.append('[' * 20000)
    out.append('C.' * 5000)
    out.append('c1ccccc1' * 500)
    return out


def floor(ctx):
    import selfies as sf
    from harness.par import pmap, chunks
    sf.set_semantic_constraints('default')
    from harness import watchdog
    watchdog.reset()
    from harness import smifuzz
    from harness import encfloor
    strings = (smifuzz.strings(ctx.seed + 2, 1500 if ctx.tier == 'quick' else 20000) + encfloor.long_chain_cases()
               + domain(ctx.tier, ctx.seed))
    strings = strings[-10:] + strings[:-10]
    res = pmap(_work, [[x] for x in strings[:10]] + chunks(strings[10:], 48))
    return {'evaluations': sum(r[0] for r in res), 'distinct_nontrivial': sum(r[1] for r in res),
            'rule': '%d hand-written SMILES fragments (valid and broken), all their pairwise concatenations, seeded '
                    'concatenations of 3..25 fragments, corpus molecules with one random corruption, 10 long or deeply '
                    'nested inputs, each x {strict} x {attribute}; non-trivial = distinct inputs rejected with '
                    'EncoderError' % len(PIECES),
            'exhaustive': False, 'samples': ['C11', 'F:F', 'C%1', '[C@TH1]'],
            'violations': [b for r in res for b in r[2]], 'bounded_note': 'sampled; not counted as proved'}


def replay_input(d):
    i = d['input']
    r = run_one(i['smiles'], i['strict'], i['attribute'])
    return r[0] in ('ok', 'EncoderError'), repr(r)


def replay_known(ctx, k):
    s = eval(k['witness']['expr'])
    r = run_one(s, True, False)
    if k['id'].endswith('recursion-depth'):
        return r[0] == 'escaped' and r[1] == 'RecursionError'
    return r[0] == 'escaped' and r[1] == 'ValueError'
