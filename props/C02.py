"""C02 - the decoder implements the published derivation grammar exactly (DESIGN 7.2)."""
import itertools
import random

ID = 'C02'
LEVEL = 'other'
TARGETS = ['selfies/grammar_rules.py::next_atom_state',
           'selfies/grammar_rules.py::next_branch_state',
           'selfies/grammar_rules.py::next_ring_state',
           'selfies/grammar_rules.py::get_index_from_selfies',
           'selfies/decoder.py::_read_index_from_selfies',
           'selfies/mol_graph.py::MolecularGraph.add_atom',
           'selfies/mol_graph.py::MolecularGraph.add_bond',
           'selfies/mol_graph.py::MolecularGraph.add_ring_bond',
           'selfies/mol_graph.py::MolecularGraph.update_bond_order',
           'selfies/utils/smiles_utils.py::smiles_to_bond',
           'selfies/decoder.py::_form_rings_bilocally',
           'selfies/grammar_rules.py::process_branch_symbol',
           'selfies/grammar_rules.py::process_ring_symbol',
           'selfies/grammar_rules.py::process_atom_symbol',
           'selfies/grammar_rules.py::_process_atom_selfies_no_cache']
ASSUMPTIONS = ["atom-symbol contracts (process_atom_symbol, _process_atom_selfies_no_cache, smiles_to_atom, tokenize_smiles) assume ASCII input of at most 4000 characters: Unicode digits matched by \\\\d and CPython's 4300-digit int() limit are recorded known findings", "regex match groups are modelled as SOME decomposition of the string into the pattern's top-level pieces (sound over-approximation of the greedy choice); functools.partial(Atom, **kw) is modelled as a heap object whose call constructs a fresh Atom", "graph-level contracts (mol_graph mutators, _form_rings_bilocally) cover integer bond orders and attribution off (the decoder side); the link between _bond_counts and the sum over incident bonds is carried by the mutators' whole-view postconditions, the finite-sum update law itself is a stated mathematical fact"]
EXPLANATION = (
    "Mixed. PROVED (deductive, all inputs): the leaf rules of the derivation equal the documented formulas - "
    "next_atom_state (mu = min(beta, alpha, i), terminal iff alpha-mu = 0), next_branch_state (n = min(i-1, M), j = i-n), "
    "next_ring_state, the base-16 index code and the index reader (missing symbol = 0). GROUND (finite, complete): the "
    "branch and ring symbol tables of the running module equal the tables of the independent grammar. BOUNDED (not "
    "counted as proved): the whole derivation loop, the second-pass ring formation and the dispatch are compared with "
    "spec/derivation.py (an independent executable rendering of docs/source/derivation.rst) on every string up to a "
    "length bound over covering symbol sets under several tables, plus seeded long random strings: atoms, bond "
    "orders, stereo marks, written neighbour order, roots and reject/accept must agree (where the rst's 'next Q+1 "
    "symbols' is ambiguous about budget overrun both readings are accepted, DESIGN 7.2 (iii)).")

SETS = {
    'A': ['[C]', '[=N]', '[#C]', '[F]', '[O]', '[=S]', '[Branch1]', '[=Branch1]', '[#Branch2]', '[Ring1]', '[=Ring1]',
          '[Ring2]', '[epsilon]', '[XX]'],
    'B': ['[C@@H1]', '[/C]', '[\\N+1]', '[=O]', '[P]', '[Cl]', '[Branch1]', '[#Branch1]', '[-/Ring1]', '[\\/Ring2]',
          '[#Ring1]', '[nop]', '.', '[B-1]'],
    'C': ['[C]', '[=C]', '[N]', '[S]', '[Branch2]', '[Branch3]', '[=Branch2]', '[Ring1]', '[Ring3]', '[#Ring2]',
          '[Mg]', '[OH0]', '[CH9]', '[Ceps]'],
    # symbols outside the grammar that have the shape of a branch / ring / atom symbol, at every state
    'D': ['[C]', '[O]', '[F]', '[=N]', '[Branch1]', '[Ring1]', '[Branch4]', '[=Branch0]', '[Ring4]', '[=-Ring1]',
          '[Ringng1]', '[chch]', '.', '[epsilon]'],
}
BIG = ['[C]', '[=C]', '[#C]', '[N]', '[=N]', '[#N]', '[O]', '[=O]', '[S]', '[=S]', '[P]', '[F]', '[Cl]', '[B]',
       '[C@]', '[C@@H1]', '[N+1]', '[O-1]', '[/C]', '[\\C]', '[13CH2]', '[Fe+2]', '[Branch1]', '[=Branch1]',
       '[#Branch1]', '[Branch2]', '[=Branch2]', '[Branch3]', '[Ring1]', '[=Ring1]', '[#Ring1]', '[Ring2]', '[Ring3]',
       '[-/Ring1]', '[/\\Ring1]', '[\\-Ring2]', '[epsilon]', '[nop]', '.']


def compare(s, tab):
    """-> None if the real decoder agrees with the derivation spec on s, else a description."""
    from harness.common import decode_view, sf
    from spec import derivation as D
    try:
        out, v = decode_view(s)
        rej = None
    except sf.DecoderError as e:
        v, rej = None, str(e)
    except Exception as e:     # not C02's business (C08), but never silently ignored
        return 'decoder raised %r' % (e,)
    last = None
    for mode in ('lenient', 'strict'):
        try:
            g = D.derive(s, tab, mode).view()
        except D.Reject as e:
            g = None
        if (v is None) != (g is None):
            last = 'decoder %s, spec %s' % ('rejects' if v is None else 'accepts', 'rejects' if g is None else 'accepts')
            continue
        if v is None:
            return None
        diffs = [k for k in ('atoms', 'bonds', 'stereo', 'adj', 'roots') if v[k] != g[k]]
        if not diffs:
            return None
        last = 'differs in %s: decoder %r spec %r (output %r)' % (diffs[0], v[diffs[0]], g[diffs[0]], out)
    return last


HRICH = ['[CH5]', '[OH3]', '[NH4]', '[PH6]', '[SH7]', '[BH4]', '[CH4]', '[NH3]', '[OH2]', '[SH3]', '[PH4]', '[FH1]',
         '[C]', '[=C]', '[Branch1]', '[Ring1]', '[Cl]']
HTABLES = ['octet_rule', 'default', 'hypervalent', 'big', 'tight', 'qonly0', 'default', 'big', 'octet_rule']


def _work(job):
    from harness.common import set_table
    tname, strings = job
    bad, n, sig = [], 0, set()
    if tname == '#sequence':
        # one process, several tables in sequence: acceptance of explicit-H symbols must follow the table in force
        for t in HTABLES:
            tab = set_table(t)
            for s in strings:
                n += 1
                r = compare(s, tab)
                if r is not None and len(bad) < 3:
                    bad.append({'clause': 'C02:derivation', 'input': {'selfies': s, 'table': t, 'sequence': HTABLES},
                                'detail': r})
                sig.add(hash((s, t)))
        return n, len(sig), bad
    tab = set_table(tname)
    for s in strings:
        n += 1
        r = compare(s, tab)
        if r is not None and len(bad) < 3:
            bad.append({'clause': 'C02:derivation', 'input': {'selfies': s, 'table': tname}, 'detail': r})
        if '[Branch' in s or 'Ring' in s:
            sig.add(hash(s))
    return n, len(sig), bad


def domain(tier, seed):
    from harness.common import strings_upto
    jobs = []
    L = {'quick': {'A': 5, 'B': 4, 'C': 4, 'D': 4}, 'thorough': {'A': 6, 'B': 5, 'C': 5, 'D': 5}}[tier]
    for name, syms in SETS.items():
        ss = list(strings_upto(syms, L[name]))
        for tname in (['default', 'tight'] if tier == 'quick' else ['default', 'octet_rule', 'tight', 'big']):
            if tname != 'default':
                ss2 = [s for s in ss if s.count('[') + s.count('.') <= L[name] - 1]
            else:
                ss2 = ss
            jobs.append((tname, ss2))
    rnd = random.Random(seed)
    longs = []
    for _ in range(3000 if tier == 'quick' else 40000):
        n = rnd.choice([8, 15, 30, 60, 200])
        longs.append(''.join(rnd.choice(BIG) for _ in range(n)))
    for tname in ('default', 'hypervalent', 'big'):
        jobs.append((tname, longs))
    from harness.common import strings_upto
    hs = list(strings_upto(HRICH, 2)) + [rnd.choice(HRICH) + rnd.choice(HRICH) + rnd.choice(HRICH) for _ in range(300)]
    for k in range(4):
        rnd.shuffle(hs)
        jobs.append(('#sequence', list(hs)))
    return jobs


def floor(ctx):
    from harness.par import pmap, chunks
    jobs = []
    for tname, ss in domain(ctx.tier, ctx.seed):
        for ch in (chunks(ss, 16 if len(ss) > 20000 else 2) if tname != '#sequence' else [ss]):
            jobs.append((tname, ch))
    res = pmap(_work, jobs)
    ev = sum(r[0] for r in res)
    dn = sum(r[1] for r in res)
    viol = [b for r in res for b in r[2]]
    return {'evaluations': ev, 'distinct_nontrivial': dn,
            'rule': 'all strings up to length %s over three 14-symbol covering sets (atoms of capacities 0..6 with all '
                    'bond prefixes, stereo, chiral/charged/isotope atoms, every branch and ring order, Branch2/3, stereo '
                    'rings, [epsilon], [nop], ".", out-of-grammar symbols) under 2-4 tables, plus seeded random strings of '
                    'length 8..200 over a 39-symbol set under 3 tables; non-trivial = contains a branch or ring symbol '
                    '(distinct strings per table)' % ('5/4/4' if ctx.tier == 'quick' else '6/5/5'),
            'exhaustive': True,
            'samples': [{'selfies': '[C][=Branch1][Ring1][Branch1][Ring2][C][C][C][F]', 'table': 'default'}],
            'violations': viol,
            'bounded_note': 'bounded-exhaustive comparison with spec/derivation.py; not counted in discharged'}


def ground(ctx):
    from harness.common import GR
    from spec import derivation as D
    res = []
    want_b, want_r = {}, {}
    for L in (1, 2, 3):
        for b in ('', '=', '#'):
            want_b['[%sBranch%d]' % (b, L)] = (D.BOND_ORDER[b], L)
            want_r['[%sRing%d]' % (b, L)] = (D.BOND_ORDER[b], L, (None, None))
        for l, r in itertools.product('-/\\', repeat=2):
            if l == r == '-':
                continue
            want_r['[%s%sRing%d]' % (l, r, L)] = (1, L, (l if l != '-' else None, r if r != '-' else None))
    res.append({'name': 'C02:branch-table', 'ok': dict(GR._PROCESS_BRANCH_CACHE) == want_b, 'n': len(want_b),
                'detail': 'selfies.grammar_rules._PROCESS_BRANCH_CACHE vs documented branch symbols',
                'input': 'selfies.grammar_rules._PROCESS_BRANCH_CACHE'})
    res.append({'name': 'C02:ring-table', 'ok': dict(GR._PROCESS_RING_CACHE) == want_r, 'n': len(want_r),
                'detail': 'selfies.grammar_rules._PROCESS_RING_CACHE vs documented ring symbols',
                'input': 'selfies.grammar_rules._PROCESS_RING_CACHE'})
    ok = all(D.classify(s) is not None and D.classify(s)[0] == 'branch' for s in want_b) and \
        all(D.classify(s) is not None and D.classify(s)[0] == 'ring' for s in want_r)
    res.append({'name': 'C02:spec-grammar-self-consistent', 'ok': ok, 'n': len(want_b) + len(want_r)})
    return res


def replay_input(d):
    from harness.common import set_table
    inp = d['input']
    r = None
    for t in (inp.get('sequence') or []):
        tab = set_table(t)
        r = r or compare(inp['selfies'], tab)
    tab = set_table(inp['table'])
    r = r or compare(inp['selfies'], tab)
    return r is None, r
