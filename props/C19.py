"""C19 - concurrent translation calls give the same results as serial calls (DESIGN 7.19)."""
import ast
import os
import random
import sys
import threading

ID = 'C19'
LEVEL = 'other'
TARGETS = ['selfies/grammar_rules.py::process_atom_symbol',
           'selfies/grammar_rules.py::_process_atom_selfies_no_cache']
ASSUMPTIONS = ["atom-symbol contracts (process_atom_symbol, _process_atom_selfies_no_cache, smiles_to_atom, tokenize_smiles) assume ASCII input of at most 4000 characters: Unicode digits matched by \\\\d and CPython's 4300-digit int() limit are recorded known findings", "regex match groups are modelled as SOME decomposition of the string into the pattern's top-level pieces (sound over-approximation of the greedy choice); functools.partial(Atom, **kw) is modelled as a heap object whose call constructs a fresh Atom"]
EXPLANATION = (
    "Contracts cannot quantify over schedules; what is machine-checked is the sequential side condition (G) of a "
    "rely/guarantee argument plus a bounded stress run. (G), re-derived from /repo's source on every run: every "
    "function reachable from encoder/decoder writes only to objects created inside the call, except the declared "
    "idempotent memo insertion _PROCESS_ATOM_CACHE[k] := P(k) and lru_cache tables of pure functions - checked as a "
    "frame (write-set) obligation over the ast: no `global` assignment, no subscript/attribute store and no mutating "
    "method call on a module-level object other than the declared memo. From (G), atomicity of single dict get/set "
    "under the GIL and the documented thread-safety of lru_cache (both trusted, stated), each call returns its serial "
    "result. BOUNDED: 8 threads with sys.setswitchinterval(1e-6) run mixed encoder/decoder calls in a cold and a warm "
    "process state and every result is compared with the serial result. Level `other`, never `proof`: the schedule "
    "quantifier itself is not machine-checked.")
TRUSTED = ["rely/guarantee rule: calls that write only fresh objects and idempotent memo entries are serialisable",
           "CPython: single dict get/set are atomic under the GIL; functools.lru_cache is thread-safe"]

MUTATORS = {'append', 'extend', 'insert', 'pop', 'popleft', 'appendleft', 'remove', 'clear', 'update', 'setdefault',
            'add', 'discard', 'sort', 'reverse', 'popitem', '__setitem__', 'cache_clear', 'move_to_end', 'rotate'}
ALLOWED = {('selfies/grammar_rules.py', 'process_atom_symbol', 'subscript-store', '_PROCESS_ATOM_CACHE')}


def module_level_names(tree):
    names = set()
    for node in tree.body:
        if isinstance(node, (ast.Assign, ast.AnnAssign, ast.AugAssign)):
            targets = node.targets if isinstance(node, ast.Assign) else [node.target]
            for t in targets:
                for n in ast.walk(t):
                    if isinstance(n, ast.Name):
                        names.add(n.id)
    return names


def local_names(fn):
    out = {a.arg for a in fn.args.args + fn.args.kwonlyargs}
    if fn.args.vararg:
        out.add(fn.args.vararg.arg)
    if fn.args.kwarg:
        out.add(fn.args.kwarg.arg)
    glob = set()
    for n in ast.walk(fn):
        if isinstance(n, ast.Global):
            glob |= set(n.names)
    for n in ast.walk(fn):
        if isinstance(n, ast.Name) and isinstance(n.ctx, ast.Store) and n.id not in glob:
            out.add(n.id)
        elif isinstance(n, (ast.For, ast.comprehension)):
            for m in ast.walk(n.target):
                if isinstance(m, ast.Name):
                    out.add(m.id)
    return out, glob


def reachable(repo):
    seen, todo = set(), ['selfies/encoder.py::encoder', 'selfies/decoder.py::decoder']
    while todo:
        k = todo.pop()
        if k in seen or k not in repo.funcs:
            continue
        seen.add(k)
        for n in ast.walk(repo.funcs[k]):
            name = None
            if isinstance(n, ast.Call):
                if isinstance(n.func, ast.Name):
                    name = n.func.id
                elif isinstance(n.func, ast.Attribute):
                    name = n.func.attr
            elif isinstance(n, ast.Attribute):
                name = n.attr      # properties (bonding_capacity)
            if name:
                for kk in repo.byname.get(name, []):
                    todo.append(kk)
                if name in repo.classes:
                    rel = repo.classes[name][0]
                    for kk in list(repo.funcs):
                        if kk.startswith('%s::%s.' % (rel, name)):
                            todo.append(kk)
    return seen


def write_set(ctx):
    """(G): writes of functions reachable from encoder/decoder to module-level state."""
    repo = ctx.ld.repo
    viol, n_sites, n_funcs = [], 0, 0
    for key in sorted(reachable(repo)):
        fn = repo.funcs[key]
        rel = key.split('::')[0]
        qual = key.split('::')[1]
        mod_names = module_level_names(repo.modules[rel]) | set(repo.module_imports(rel))
        loc, glob = local_names(fn)
        n_funcs += 1

        def shared(expr):
            # the root name of an expression, if it denotes a module-level object
            while isinstance(expr, (ast.Attribute, ast.Subscript)):
                expr = expr.value
            if isinstance(expr, ast.Name) and (expr.id in glob or (expr.id in mod_names and expr.id not in loc)):
                return expr.id
            return None
        for n in ast.walk(fn):
            site = None
            if isinstance(n, ast.Name) and isinstance(n.ctx, ast.Store) and n.id in glob:
                site = ('global-assign', n.id)
            elif isinstance(n, (ast.Subscript, ast.Attribute)) and isinstance(n.ctx, (ast.Store, ast.Del)):
                r = shared(n.value)
                if r:
                    site = ('subscript-store' if isinstance(n, ast.Subscript) else 'attribute-store', r)
            elif isinstance(n, ast.Call) and isinstance(n.func, ast.Attribute) and n.func.attr in MUTATORS:
                r = shared(n.func.value)
                if r:
                    site = ('mutating-call:' + n.func.attr, r)
            elif isinstance(n, ast.AugAssign):
                r = shared(n.target) if not isinstance(n.target, ast.Name) else (n.target.id if n.target.id in glob else None)
                if r:
                    site = ('aug-assign', r)
            if site:
                n_sites += 1
                if (rel, qual, site[0], site[1]) not in ALLOWED:
                    viol.append({'clause': 'C19:write-set', 'input': None,
                                 'detail': '%s (%s:%d) performs %s on module-level object %r, which concurrent calls share'
                                           % (key, rel, n.lineno, site[0], site[1]),
                                 'site': [rel, qual, site[0], site[1]]})
    # decorators introducing shared memo tables other than the declared ones
    for key in sorted(reachable(repo)):
        fn = repo.funcs[key]
        for dnode in fn.decorator_list:
            txt = ast.unparse(dnode)
            if 'cache' in txt and key not in ('selfies/bond_constraints.py::get_bonding_capacity',
                                              'selfies/mol_graph.py::Atom.bonding_capacity'):
                viol.append({'clause': 'C19:write-set', 'input': None, 'site': [key, txt],
                             'detail': '%s is memoised (%s): a shared table not covered by the declared memo frames'
                                       % (key, txt)})
    return viol, n_funcs, n_sites


WORK = None


def calls(rnd, n):
    from harness import gen, enc
    cor = enc.corpus()
    out = []
    for _ in range(n):
        if rnd.random() < 0.5:
            out.append(('dec', gen.rand_selfies(rnd, rnd.choice([5, 20, 60])) if rnd.random() < 0.7
                        else ''.join('[%d%s]' % (rnd.randrange(1, 300), rnd.choice(['C', 'N', 'O', 'S'])) for _ in range(6))))
        else:
            out.append(('enc', rnd.choice(cor)))
    return out


def run_call(c):
    import selfies as sf
    try:
        if c[0] == 'dec':
            return ('ok', sf.decoder(c[1]))
        return ('ok', sf.encoder(c[1]))
    except (sf.DecoderError, sf.EncoderError) as e:
        return (type(e).__name__,)
    except Exception as e:
        return ('other', type(e).__name__, str(e)[:100])


def stress(ctx):
    """Threads in a child process (cold caches), results compared with serial results computed afterwards."""
    import multiprocessing as mp
    q = mp.get_context('fork').Queue()

    def child(seed, q):
        import selfies as sf
        from harness import enc
        sf.set_semantic_constraints(enc.relaxed_table())
        rnd = random.Random(seed)
        work = calls(rnd, 400 if ctx.tier == 'quick' else 3000)
        results = [None] * len(work)
        old = sys.getswitchinterval()
        sys.setswitchinterval(1e-6)

        def worker(k):
            for i in range(k, len(work), 8):
                results[i] = run_call(work[i])
        ts = [threading.Thread(target=worker, args=(k,)) for k in range(8)]
        for t in ts:
            t.start()
        for t in ts:
            t.join()
        sys.setswitchinterval(old)
        bad = []
        for i, c in enumerate(work):
            serial = run_call(c)
            if serial != results[i]:
                bad.append({'clause': 'C19:stress', 'input': {'call': list(c), 'seed': seed},
                            'detail': 'concurrent result %r, serial result %r' % (results[i], serial)})
        q.put((len(work), bad[:3]))
    procs = []
    for k in range(4 if ctx.tier == 'quick' else 16):
        p = mp.get_context('fork').Process(target=child, args=(ctx.seed * 100 + k, q))
        p.start()
        procs.append(p)
    n, bad = 0, []
    for _ in procs:
        a, b = q.get()
        n += a
        bad += b
    for p in procs:
        p.join()
    return n, bad


def floor(ctx):
    viol, n_funcs, n_sites = write_set(ctx)
    n, bad = stress(ctx)
    return {'evaluations': n + n_funcs, 'distinct_nontrivial': n,
            'rule': '(G) write-set obligation over %d functions reachable from encoder/decoder (%d writes to module-level '
                    'objects found, all must be declared memo insertions); stress: 8 threads x switch interval 1e-6 over '
                    'seeded mixed encoder/decoder calls in freshly forked processes (cold memo tables), each result '
                    'compared with the serial result; non-trivial = calls executed concurrently' % (n_funcs, n_sites),
            'exhaustive': False, 'samples': [{'call': ['dec', '[C][=C][F]']}],
            'violations': viol + bad, 'write_set_functions': n_funcs, 'module_level_write_sites': n_sites,
            'bounded_note': 'schedules are sampled, not enumerated; the write-set check is syntactic over the real ast'}


def replay_input(d):
    return True, 'schedule-dependent; see detail'
