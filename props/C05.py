"""C05 - aromatic SMILES are kekulized correctly, or rejected, independent of atom order (DESIGN 7.5)."""
ID = 'C05'
LEVEL = 'other'
TARGETS = []
EXPLANATION = ('BOUNDED stand-in (not counted as proved): for aromatic inputs the round-trip output has no aromatic atom left, every aromatic input atom has at most one double bond inside the former aromatic system, atoms of the standard kinds (c, n, o, s, p, [nH], substituted n, [n+]) get exactly one / none as the normal-valence rule demands, the sigma skeleton, H counts and charges are unchanged, and acceptance plus result are the same for re-traversals of the same molecule in other atom orders; find_perfect_matching is compared with brute force on all graphs up to 6 nodes. Known findings (non-bipartite matching, anionic centres) are replayed on every run.')


def inputs(ctx):
    from harness import enc, encfloor
    c = enc.corpus()
    sel = [s for s in c if any(x in s for x in 'cnos')]
    sel = sel[::3] if ctx.tier == 'quick' else sel
    return encfloor.SPECIAL + encfloor.long_chain_cases() + sel


def floor(ctx):
    from harness import encfloor
    return encfloor.run(ctx, ID, inputs(ctx), 2 if ctx.tier == 'quick' else 8, RULE)


RULE = ("163 hand-written special cases (stereo centres opening/closing rings in all label orders, implicit-H centres, marks on ring closures, bracket spelling variants, aromatic systems, ring/branch lengths needing 1-2 index symbols) plus a aromatic subset of the committed 3272-molecule corpus sampled from the repository's datasets; each with N same-order respellings (ring-label policy, explicit '-', bracket variants) and N random re-traversals (atom order changed) written by spec/smiles_writer.py; encoder -> decoder (-> encoder) on the real library under a relaxed table, judged by the independent reader; non-trivial = distinct SELFIES strings produced")


def replay_input(d):
    from harness import encfloor
    return encfloor.replay(d)
