"""C05 - aromatic SMILES are kekulized correctly, or rejected, independent of atom order (DESIGN 7.5)."""
ID = 'C05'
LEVEL = 'other'
TARGETS = []
EXPLANATION = ('BOUNDED stand-in (not counted as proved): for aromatic inputs the round-trip output has no aromatic atom left, every aromatic input atom has at most one double bond inside the former aromatic system, atoms of the standard kinds (c, n, o, s, p, [nH], substituted n, [n+]) get exactly one / none as the normal-valence rule demands, the sigma skeleton, H counts and charges are unchanged, and acceptance plus result are the same for re-traversals of the same molecule in other atom orders; find_perfect_matching is compared with brute force on all graphs up to 6 nodes. Known findings (non-bipartite matching, anionic centres) are replayed on every run.')


def inputs(ctx):
    from harness import enc, encfloor
    c = enc.corpus()
    sel = [s for s in c if any(x in s for x in 'cnos')]
    sel = sel[::3] if ctx.tier == 'quick' else sel
    from harness import smifuzz
    fz = smifuzz.strings(ctx.seed + 1, 1200 if ctx.tier == 'quick' else 15000)
    return encfloor.SPECIAL + encfloor.long_chain_cases() + sel + fz


def floor(ctx):
    from harness import encfloor
    return encfloor.run(ctx, ID, inputs(ctx), 2 if ctx.tier == 'quick' else 8, RULE)


RULE = ("389 hand-written special cases (harness/encfloor.SPECIAL, grown with every seeded change that was first missed) (stereo centres opening/closing rings in all label orders, implicit-H centres, marks on ring closures, bracket spelling variants, aromatic systems, ring/branch lengths needing 1-2 index symbols) plus a aromatic subset of the committed 3272-molecule corpus sampled from the repository's datasets; plus grammar-fuzzed SMILES (harness/smifuzz.py: bracket atoms with every field, bond symbols on ring digits, %nn labels, ring digits before and after branches, several fragments); each with N same-order respellings (ring-label policy, explicit '-', bracket variants) and N random re-traversals (atom order changed) written by spec/smiles_writer.py; encoder -> decoder (-> encoder) on the real library under a relaxed table, judged by the independent reader; non-trivial = distinct SELFIES strings produced")


def replay_input(d):
    from harness import encfloor
    return encfloor.replay(d)


# ---- find_perfect_matching against brute force (bounded stand-in; the BFS without blossom contraction cannot be proved)
def _brute(graph):
    n = len(graph)

    def rec(free):
        if not free:
            return True
        a = min(free)
        for b in graph[a]:
            if b in free and b != a:
                if rec(free - {a, b}):
                    return True
        return False
    return rec(frozenset(range(n)))


def _check_matching(graph):
    import sys
    import selfies  # noqa
    M = sys.modules['selfies.utils.matching_utils']
    g = [list(x) for x in graph]
    try:
        res = M.find_perfect_matching(g)
    except Exception as e:
        return 'raised %r' % (e,)
    n = len(graph)
    if res is None:
        return 'returns None although a perfect matching exists' if _perfect_exists(graph) else None
    if len(res) != n:
        return 'result has wrong length'
    for i, j in enumerate(res):
        if j is None or not (0 <= j < n) or res[j] != i or j not in graph[i] or i == j:
            return 'result %r is not a perfect matching' % (res,)
    return None


def _perfect_exists(graph):
    if len(graph) <= 12:
        return _brute(graph)
    import networkx as nx
    G = nx.Graph()
    G.add_nodes_from(range(len(graph)))
    G.add_edges_from((i, j) for i, a in enumerate(graph) for j in a)
    return 2 * len(nx.max_weight_matching(G, maxcardinality=True)) == len(graph)


def _regular_bipartite(rnd, k, d):
    """union of d random perfect matchings between two sides of k nodes (so a perfect matching exists), relabelled,
    adjacency shuffled: with equal degrees everywhere the greedy start of find_perfect_matching leaves several
    unmatched pairs, and the augmenting searches have to run more than once on the same component"""
    g = [set() for _ in range(2 * k)]
    for _ in range(d):
        R = list(range(k, 2 * k))
        rnd.shuffle(R)
        for a, b in zip(range(k), R):
            g[a].add(b)
            g[b].add(a)
    perm = list(range(2 * k))
    rnd.shuffle(perm)
    h = [[] for _ in range(2 * k)]
    for a in range(2 * k):
        for b in g[a]:
            h[perm[a]].append(perm[b])
    for a in h:
        rnd.shuffle(a)
    return h


def _graphs(n):
    import itertools
    pairs = [(i, j) for i in range(n) for j in range(i + 1, n)]
    for mask in range(1 << len(pairs)):
        adj = [[] for _ in range(n)]
        for k, (i, j) in enumerate(pairs):
            if mask >> k & 1:
                adj[i].append(j)
                adj[j].append(i)
        yield adj


def _mwork(job):
    n, lo, hi, rot = job
    import itertools
    bad, cnt, nt = [], 0, 0
    for k, g in enumerate(_graphs(n)):
        if k < lo or k >= hi:
            continue
        if any(len(a) > 3 for a in g) and n > 4:
            pass
        variants = [g]
        if rot:
            variants.append([a[1:] + a[:1] for a in g])
            variants.append([list(reversed(a)) for a in g])
        for v in variants:
            cnt += 1
            r = _check_matching(v)
            if r and len(bad) < 2:
                bad.append({'clause': 'C05:matching', 'detail': r, 'input': {'graph': v},
                            'features': {'nodes': n}})
        if _brute(g):
            nt += 1
    return cnt, nt, bad


def _hex_patch(rnd, rows, cols):
    """a random connected-ish subgraph of the hexagonal (brick-wall) lattice: bipartite, degree <= 3, i.e. the shape of
    the delocalised subgraphs kekulize() hands to find_perfect_matching; nodes relabelled and adjacency lists shuffled"""
    nodes = [(r, c) for r in range(rows) for c in range(cols)]
    edges = set()
    for r in range(rows):
        for c in range(cols):
            if c + 1 < cols:
                edges.add(((r, c), (r, c + 1)))
            if r + 1 < rows and (r + c) % 2 == 0:
                edges.add(((r, c), (r + 1, c)))
    drop = set(rnd.sample(nodes, rnd.randint(0, max(1, len(nodes) // 5))))
    keep = [v for v in nodes if v not in drop]
    rnd.shuffle(keep)
    idx = {v: k for k, v in enumerate(keep)}
    g = [[] for _ in keep]
    for a, b in edges:
        if a in idx and b in idx and rnd.random() > 0.06:
            g[idx[a]].append(idx[b])
            g[idx[b]].append(idx[a])
    for a in g:
        rnd.shuffle(a)
    return g


def _bwork(job):
    """find_perfect_matching on bipartite lattice patches against networkx (the BFS without blossoms is complete on
    bipartite graphs, so every disagreement is a defect of the search, not the recorded non-bipartite finding)"""
    import random
    import networkx as nx
    seed, count = job
    rnd = random.Random(seed)
    import sys
    import selfies  # noqa
    M = sys.modules['selfies.utils.matching_utils']
    bad, nt = [], 0
    for it in range(count):
        if it % 2:
            g = _regular_bipartite(rnd, rnd.choice((60, 120, 200)), 3)
            perfect = True
        else:
            g = _hex_patch(rnd, rnd.randint(2, 6), rnd.randint(3, 9))
            perfect = _perfect_exists(g)
        nt += perfect
        try:
            res = M.find_perfect_matching([list(a) for a in g])
        except Exception as e:
            res = 'raised %r' % (e,)
        r = None
        if isinstance(res, str):
            r = res
        elif res is None:
            r = 'returns None although a perfect matching exists' if perfect else None
        elif len(res) != len(g) or any(j is None or res[j] != i or j not in g[i] for i, j in enumerate(res)):
            r = 'result %r is not a perfect matching' % (res,)
        elif not perfect:
            r = 'returns a matching although none exists'
        if r and len(bad) < 2:
            bad.append({'clause': 'C05:matching', 'detail': r, 'input': {'graph': g}, 'features': {'nodes': len(g),
                                                                                                   'bipartite': True}})
    return count, nt, bad


KNOWN_GRAPH = [[4, 1], [4, 0, 6], [3, 4], [5, 7, 2], [2, 0, 1], [6, 3], [1, 7, 5], [3, 6]]

_enc_floor = floor


def floor(ctx):
    from harness.par import pmap
    res = _enc_floor(ctx)
    jobs = []
    for n in (2, 4, 6):
        total = 1 << (n * (n - 1) // 2)
        step = max(1, total // 32)
        for lo in range(0, total, step):
            jobs.append((n, lo, lo + step, True))
    if ctx.tier == 'thorough':
        pass
    mres = pmap(_mwork, jobs)
    nb = 400 if ctx.tier == 'quick' else 6000
    mres += pmap(_bwork, [(ctx.seed * 1000 + k, nb) for k in range(16)])
    res['evaluations'] += sum(r[0] for r in mres)
    res['distinct_nontrivial'] += sum(r[1] for r in mres)
    res['violations'] += [b for r in mres for b in r[2]]
    res['rule'] += ('; find_perfect_matching vs brute force on ALL labelled graphs with 2, 4, 6 nodes, each with rotated '
                    'and reversed adjacency lists (exhaustive; the recorded 8-node counterexample is replayed as a '
                    'known finding); plus seeded random patches of the hexagonal lattice (bipartite, degree <= 3, up to 54 '
                    'nodes, relabelled, shuffled adjacency) against networkx maximum matching, and random 3-regular bipartite '
                    'graphs with a planted perfect matching (120-400 nodes; the greedy start leaves several unmatched pairs)')
    return res


_enc_replay = replay_input


def replay_input(d):
    if 'graph' in d.get('input', {}):
        r = _check_matching(d['input']['graph'])
        return r is None, r
    return _enc_replay(d)


def replay_known(ctx, k):
    if k['id'] == 'C05-matching-odd-cycle':
        return _check_matching(k['witness']['graph']) is not None
    if k['id'] == 'C05-circulene':
        import selfies as sf
        from harness import enc
        sf.set_semantic_constraints(enc.relaxed_table())
        r = enc.analyze(k['witness']['smiles'])
        return any(c == 'C05:complete' for c, _ in r)
    return False
