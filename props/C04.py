"""C04 - round trip preserves tetrahedral and double-bond stereochemistry (DESIGN 7.4)."""
ID = 'C04'
LEVEL = 'other'
TARGETS = ['selfies/utils/smiles_utils.py::smiles_to_bond',
           'selfies/utils/smiles_utils.py::bond_to_smiles',
           'selfies/encoder.py::_bond_to_selfies',
           'selfies/encoder.py::_ring_bonds_to_selfies',
           'selfies/grammar_rules.py::process_ring_symbol']
EXPLANATION = ("BOUNDED stand-in (runtime property contract on encoder/decoder, not counted as proved): for every chiral atom the handedness computed by the independent reader from the written neighbour order (preceding atom, implicit H, ring-closure positions, branches) is the same in the input and in decoder(encoder(input)); every '/' or '\\\\' mark is found again on the same bond with the same direction, including marks on ring closures; over hand-written centre configurations and all stereo-bearing corpus molecules with re-spellings. Deductive clauses on _should_invert_chirality are listed in coverage.clauses when discharged.")


def inputs(ctx):
    from harness import enc, encfloor
    c = enc.corpus()
    sel = [s for s in c if '@' in s or '/' in s or chr(92) in s]
    sel = sel[::2] if ctx.tier == 'quick' else sel
    from harness import smifuzz
    fz = smifuzz.strings(ctx.seed + 1, 1200 if ctx.tier == 'quick' else 15000)
    return encfloor.SPECIAL + encfloor.ring_digit_centres() + encfloor.long_chain_cases() + sel + fz


def floor(ctx):
    from harness import encfloor
    return encfloor.run(ctx, ID, inputs(ctx), 2 if ctx.tier == 'quick' else 6, RULE)


RULE = ("389 hand-written special cases (harness/encfloor.SPECIAL, grown with every seeded change that was first missed) (stereo centres opening/closing rings in all label orders, implicit-H centres, marks on ring closures, bracket spelling variants, aromatic systems, ring/branch lengths needing 1-2 index symbols) plus a stereo-bearing subset of the committed 3272-molecule corpus sampled from the repository's datasets; plus grammar-fuzzed SMILES (harness/smifuzz.py: bracket atoms with every field, bond symbols on ring digits, %nn labels, ring digits before and after branches, several fragments); each with N same-order respellings (ring-label policy, explicit '-', bracket variants) and N random re-traversals (atom order changed) written by spec/smiles_writer.py; encoder -> decoder (-> encoder) on the real library under a relaxed table, judged by the independent reader; non-trivial = distinct SELFIES strings produced")


def replay_input(d):
    from harness import encfloor
    return encfloor.replay(d)


def replay_known(ctx, k):
    import selfies as sf
    from harness import enc
    sf.set_semantic_constraints(enc.relaxed_table())
    r = enc.analyze(k['witness']['smiles'])
    sf.set_semantic_constraints('default')
    return any(c == 'C04:tetrahedral' for c, _ in r)
