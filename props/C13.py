"""C13 - [nop] padding is invisible to the decoder (DESIGN 7.13)."""
import itertools
import random
import warnings

ID = 'C13'
LEVEL = 'other'
TARGETS = ['selfies/decoder.py::_tokenize_selfies',
           'selfies/utils/selfies_utils.py::split_selfies']
ASSUMPTIONS = ['_tokenize_selfies is verified for both values of `compatible`; with compatible=True for ASCII input of at most 3990 characters (the domain of the contract of modernize_symbol), and there only exception freedom and the precondition of the callee are claimed, not that a legacy spelling cannot turn into [nop]']
EXPLANATION = (
    "BOUNDED stand-in (runtime property contract on the public decoder): for every string of up to N tokens over "
    "covering symbol sets (atoms, branch and ring symbols followed by index symbols, dots, out-of-grammar symbols) "
    "and EVERY subset of [nop] insertion positions, decoder(padded) returns/raises exactly as decoder(original), "
    "with and without compatible=True; plus seeded long strings with random insertions, and the "
    "selfies_to_encoding -> encoding_to_selfies padding round trip. Deductive clauses (token generator filters [nop] "
    "first) are listed in coverage.clauses when discharged.")

SYMS = ['[C]', '[=N]', '[O]', '[F]', '[Branch1]', '[=Branch1]', '[Ring1]', '[=Ring2]', '[#Branch2]', '.', '[XX]',
        '[epsilon]']


def outcome(s, **kw):
    import selfies as sf
    try:
        with warnings.catch_warnings():
            warnings.simplefilter('ignore')
            r = sf.decoder(s, **kw)
            if isinstance(r, tuple):
                # attribute=True: (smiles, attribution maps); input positions count symbols ignoring [nop] and '.',
                # so the whole returned value is covered by the property
                r = (r[0], [(m.index, m.token, [(a.index, a.token) for a in (m.attribution or [])]) for m in r[1]])
            return ('ok', r)
    except sf.DecoderError:
        return ('DecoderError',)
    except Exception as e:
        return ('other', type(e).__name__)


def insertions(tokens):
    n = len(tokens)
    for mask in range(1 << (n + 1)):
        out = []
        for i in range(n + 1):
            if mask >> i & 1:
                out.append('[nop]')
                if (mask * 7 + i) % 5 == 0:
                    out.append('[nop]')
            if i < n:
                out.append(tokens[i])
        yield ''.join(out)


def _work(job):
    toks_list, flags = job
    n, bad, nt = 0, [], set()
    for toks in toks_list:
        base = ''.join(toks)
        want = outcome(base, **flags)
        for p in insertions(toks):
            n += 1
            got = outcome(p, **flags)
            if got != want and len(bad) < 3:
                bad.append({'clause': 'C13:nop-invisible', 'input': {'original': base, 'padded': p, 'flags': flags},
                            'detail': 'original -> %r, padded -> %r' % (want, got)})
        if want[0] == 'ok' and ('Ring' in base or 'Branch' in base):
            nt.add(hash(base))
    return n, len(nt), bad


def floor(ctx):
    import selfies as sf
    from harness.par import pmap, chunks
    from harness import gen
    sf.set_semantic_constraints('default')
    L = 4 if ctx.tier == 'quick' else 5
    toks = [t for n in range(L + 1) for t in itertools.product(SYMS, repeat=n)]
    jobs = [(ch, {}) for ch in chunks(toks, 24)]
    sub = toks[::7]
    jobs += [(ch, {'compatible': True}) for ch in chunks(sub, 8)]
    jobs += [(ch, {'attribute': True}) for ch in chunks(toks[3::7], 8)]
    jobs += [(ch, {'attribute': True, 'compatible': True}) for ch in chunks(toks[5::23], 4)]
    res = pmap(_work, jobs)
    ev = sum(r[0] for r in res)
    nt = sum(r[1] for r in res)
    viol = [b for r in res for b in r[2]]
    # long strings with random insertion sets
    rnd = random.Random(ctx.seed)
    for _ in range(1000 if ctx.tier == 'quick' else 20000):
        import re
        s = re.sub(r'\.+', '.', gen.rand_selfies(rnd, rnd.choice([10, 40, 120]), nop=0)).lstrip('.')
        toks2 = re.findall(r'\[[^\]]*\]|\.', s)
        padded = ''.join(('[nop]' * rnd.choice([0, 0, 1, 2])) + t for t in toks2) + '[nop]' * rnd.choice([0, 1, 3])
        ev += 1
        a, b = outcome(s), outcome(padded)
        if a != b and len(viol) < 6:
            viol.append({'clause': 'C13:nop-invisible', 'input': {'original': s, 'padded': padded, 'flags': {}},
                         'detail': 'original -> %r, padded -> %r' % (a, b)})
        for fl in ({'attribute': True},):
            if _ % 4 == 0:
                ev += 1
                a2, b2 = outcome(s, **fl), outcome(padded, **fl)
                if a2 != b2 and len(viol) < 6:
                    viol.append({'clause': 'C13:nop-invisible', 'input': {'original': s, 'padded': padded, 'flags': fl},
                                 'detail': 'original -> %r, padded -> %r' % (a2, b2)})
        # padding through the encoding utilities: of the original and of the string that already holds [nop]s
        if _ % 2:
            s_enc, n_enc = padded, len(re.findall(r'\[[^\]]*\]|\.', padded))
        else:
            s_enc, n_enc = s, len(toks2)
        alphabet = sorted(set(toks2) | {'[nop]', '.'})
        rnd.shuffle(alphabet)
        stoi = {t: i for i, t in enumerate(alphabet)}
        itos = {i: t for t, i in stoi.items()}
        pad = n_enc + rnd.choice([0, 1, 5, -3])
        try:
            if rnd.random() < 0.5:
                lab = sf.selfies_to_encoding(s_enc, stoi, pad_to_len=pad, enc_type='label')
                back = sf.encoding_to_selfies(lab, itos, 'label')
            else:
                hot = sf.selfies_to_encoding(s_enc, stoi, pad_to_len=pad, enc_type='one_hot')
                back = sf.encoding_to_selfies(hot, itos, 'one_hot')
            c = outcome(back)
        except Exception as e:
            back, c = None, ('encoding-raised', repr(e))
        if c != a and len(viol) < 6:
            viol.append({'clause': 'C13:encoding-padding', 'input': {'original': s, 'padded': back, 'flags': {},
                                                                       'encoded_from': s_enc, 'pad_to_len': pad},
                         'detail': 'original -> %r, padded -> %r' % (a, c)})
    return {'evaluations': ev, 'distinct_nontrivial': nt,
            'rule': 'every token sequence of length <= %d over 12 covering symbols x every subset of [nop] insertion '
                    'positions (some doubled), default flags; a 1/7 subsample with compatible=True; seeded long strings '
                    'with random insertions and padding through selfies_to_encoding/encoding_to_selfies; non-trivial = '
                    'distinct accepted originals containing a branch or ring symbol' % L,
            'exhaustive': True, 'samples': [{'original': '[C][Ring1][C]', 'padded': '[C][Ring1][nop][C][nop]'}],
            'violations': viol, 'bounded_note': 'bounded-exhaustive; not counted as proved'}


def replay_input(d):
    i = d['input']
    a, b = outcome(i['original'], **i['flags']), outcome(i['padded'], **i['flags'])
    return a == b, 'original -> %r, padded -> %r' % (a, b)
