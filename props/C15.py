"""C15 - label / one-hot encodings are exact inverses of their decoders (DESIGN 7.15)."""
import itertools
import random

ID = 'C15'
LEVEL = 'other'
TARGETS = []
EXPLANATION = (
    "BOUNDED stand-in (not counted as proved) plus every deductive clause listed in coverage.clauses: for every "
    "vocabulary bijection over small symbol sets (with/without '.', with [nop] at any index), every string over it up "
    "to a length bound, every pad length in {-3,-1,0,L-1,L,L+1,L+3} and every enc_type value (valid and invalid): the "
    "label list has length max(L, pad), its entries are the vocabulary indices followed by [nop] padding, the one-hot "
    "matrix has exactly one 1 per row at that index, encoding_to_selfies inverts both, the batch functions equal the "
    "per-string functions element-wise and invert each other, and missing symbols / bad enc_type / ragged vectors raise.")

SYMSETS = [['[C]', '[nop]'], ['[C]', '[=O]', '[nop]'], ['[C]', '.', '[nop]'], ['[nop]', '[F]', '.', '[N]']]


def expect(tokens, stoi, pad):
    L = len(tokens)
    toks = list(tokens) + ['[nop]'] * max(0, pad - L)
    lab = [stoi[t] for t in toks]
    hot = [[1 if j == k else 0 for j in range(len(stoi))] for k in lab]
    return toks, lab, hot


def check_case(tokens, stoi, pad):
    import selfies as sf
    s = ''.join(tokens)
    itos = {i: t for t, i in stoi.items()}
    toks, lab, hot = expect(tokens, stoi, pad)
    out = []
    try:
        r_both = sf.selfies_to_encoding(s, stoi, pad_to_len=pad, enc_type='both')
        r_lab = sf.selfies_to_encoding(s, stoi, pad_to_len=pad, enc_type='label')
        r_hot = sf.selfies_to_encoding(s, stoi, pad_to_len=pad, enc_type='one_hot')
    except Exception as e:
        return [('C15:encode', 'selfies_to_encoding(%r, %r, pad=%d) raised %r' % (s, stoi, pad, e))]
    if r_lab != lab or r_both[0] != lab:
        out.append(('C15:label', 'label %r, expected %r for %r vocab %r pad %d' % (r_lab, lab, s, stoi, pad)))
    if r_hot != hot or r_both[1] != hot:
        out.append(('C15:one-hot', 'one-hot %r, expected %r for %r vocab %r pad %d' % (r_hot, hot, s, stoi, pad)))
    want_s = ''.join(toks)
    try:
        if sf.encoding_to_selfies(lab, itos, 'label') != want_s:
            out.append(('C15:decode-label', 'encoding_to_selfies(label) = %r, want %r'
                        % (sf.encoding_to_selfies(lab, itos, 'label'), want_s)))
        if sf.encoding_to_selfies(hot, itos, 'one_hot') != want_s:
            out.append(('C15:decode-one-hot', 'encoding_to_selfies(one_hot) = %r, want %r'
                        % (sf.encoding_to_selfies(hot, itos, 'one_hot'), want_s)))
    except Exception as e:
        out.append(('C15:decode', 'encoding_to_selfies raised %r for %r' % (e, want_s)))
    return out


def check_batch(batch_tokens, stoi, pad):
    import selfies as sf
    itos = {i: t for t, i in stoi.items()}
    strs = [''.join(t) for t in batch_tokens]
    out = []
    try:
        flat = sf.batch_selfies_to_flat_hot(strs, stoi, pad)
    except Exception as e:
        return [('C15:batch', 'batch_selfies_to_flat_hot(%r, pad=%d) raised %r' % (strs, pad, e))]
    want = []
    for t in batch_tokens:
        _, _, hot = expect(t, stoi, pad)
        want.append([x for row in hot for x in row])
    if flat != want:
        out.append(('C15:batch-elementwise', 'batch flat-hot %r != per-string %r for %r pad %d' % (flat, want, strs, pad)))
    try:
        back = sf.batch_flat_hot_to_selfies(want, itos)
        wb = [''.join(expect(t, stoi, pad)[0]) for t in batch_tokens]
        if back != wb:
            out.append(('C15:batch-inverse', 'batch_flat_hot_to_selfies gives %r, want %r (pad %d)' % (back, wb, pad)))
    except Exception as e:
        out.append(('C15:batch-inverse', 'batch_flat_hot_to_selfies raised %r on %r' % (e, want)))
    return out


def check_errors(stoi):
    import selfies as sf
    itos = {i: t for t, i in stoi.items()}
    out = []
    for bad in ('labels', '', 'One_hot', None, 'both '):
        try:
            sf.selfies_to_encoding('[C]', stoi, enc_type=bad)
            out.append(('C15:bad-enc-type', 'selfies_to_encoding accepted enc_type=%r' % (bad,)))
        except ValueError:
            pass
        except Exception as e:
            out.append(('C15:bad-enc-type', 'enc_type=%r raised %r instead of ValueError' % (bad, e)))
    for bad in ('both', 'labels', '', None):
        try:
            sf.encoding_to_selfies([0], itos, enc_type=bad)
            out.append(('C15:bad-enc-type', 'encoding_to_selfies accepted enc_type=%r' % (bad,)))
        except ValueError:
            pass
        except Exception as e:
            out.append(('C15:bad-enc-type', 'enc_type=%r raised %r instead of ValueError' % (bad, e)))
    try:
        sf.selfies_to_encoding('[C][Zz]', stoi)
        out.append(('C15:missing-symbol', 'missing symbol [Zz] did not raise'))
    except KeyError:
        pass
    if '.' not in stoi:
        try:
            sf.selfies_to_encoding('[C].[C]', stoi)
            out.append(('C15:missing-symbol', "'.' missing from the vocabulary did not raise"))
        except KeyError:
            pass
    n = len(stoi)
    if n > 1:
        try:
            sf.batch_flat_hot_to_selfies([[1] + [0] * (n - 1) + [0]], itos)
            out.append(('C15:ragged', 'vector of length %d accepted with vocabulary size %d' % (n + 1, n)))
        except ValueError:
            pass
        except Exception as e:
            out.append(('C15:ragged', 'ragged vector raised %r instead of ValueError' % (e,)))
    return out


def _work(job):
    syms, perms, L = job
    n, bad, nt = 0, [], set()
    for perm in perms:
        stoi = {s: i for s, i in zip(syms, perm)}
        for r in check_errors(stoi):
            bad.append({'clause': r[0], 'detail': r[1], 'input': {'vocab': stoi}})
        seqs = []
        for k in range(L + 1):
            for combo in itertools.product(syms, repeat=k):
                if combo and (combo[0] == '.' or any(a == b == '.' for a, b in zip(combo, combo[1:]))):
                    continue
                seqs.append(list(combo))
        for t in seqs:
            for pad in sorted({-3, -1, 0, len(t) - 1, len(t), len(t) + 1, len(t) + 3}):
                n += 1
                for r in check_case(t, stoi, pad):
                    if len(bad) < 6:
                        bad.append({'clause': r[0], 'detail': r[1], 'input': {'tokens': t, 'vocab': stoi, 'pad': pad}})
                nt.add((tuple(t), pad > len(t)))
        rnd = random.Random(len(seqs))
        for _ in range(40):
            batch = [rnd.choice(seqs) for _ in range(rnd.choice([1, 2, 3, 4]))]
            pad = rnd.choice([-1, 0, 1, 2, L, L + 2])
            n += 1
            for r in check_batch(batch, stoi, pad):
                if len(bad) < 8:
                    bad.append({'clause': r[0], 'detail': r[1], 'input': {'batch': batch, 'vocab': stoi, 'pad': pad}})
    return n, len(nt), bad[:8]


def floor(ctx):
    from harness.par import pmap
    L = 3 if ctx.tier == 'quick' else 4
    jobs = []
    for syms in SYMSETS:
        perms = list(itertools.permutations(range(len(syms))))
        for p in perms:
            jobs.append((syms, [p], L))
    res = pmap(_work, jobs)
    return {'evaluations': sum(r[0] for r in res), 'distinct_nontrivial': sum(r[1] for r in res),
            'rule': 'every bijection of 4 small symbol sets (2-4 symbols, with/without ".", [nop] at every index) x every '
                    'token sequence of length <= %d x pad in {-3,-1,0,L-1,L,L+1,L+3} x enc_type in {label, one_hot, both}; '
                    'seeded batches of uneven lengths; invalid enc_type / missing symbol / ragged vector cases; '
                    'non-trivial = distinct (string, padded?) pairs per vocabulary' % L,
            'exhaustive': True, 'samples': [{'tokens': ['[C]', '.', '[C]'], 'vocab': {'[C]': 1, '.': 0, '[nop]': 2}, 'pad': 5}],
            'violations': [b for r in res for b in r[2]], 'bounded_note': 'bounded-exhaustive; not counted as proved'}


def replay_input(d):
    i = d['input']
    if 'tokens' in i:
        r = check_case(i['tokens'], i['vocab'], i['pad'])
    elif 'batch' in i:
        r = check_batch(i['batch'], i['vocab'], i['pad'])
    else:
        r = check_errors(i['vocab'])
    return not r, repr(r[:1])
