"""Contracts for selfies/mol_graph.py: abstract view, representation invariant and whole-view postconditions."""
from pyvc.api import *

FIELD_TYPES = {
    "_roots": "list[int]", "_atoms": "list[Atom]", "_bond_dict": "dict", "_adj_list": "list[list]",
    "_bond_counts": "list[num]", "_ring_bond_flags": "list[bool]", "_delocal_subgraph": "dict", "_attribution": "dict", "_attributable": "bool",
}


@spec
def natoms(mol):
    return len(mol._atoms)


@spec
def wf_basic(mol):
    # the quantifier-free part of wf: component containers, their distinctness and equal lengths
    return (typed(mol, 'MolecularGraph')
            and typed(mol._atoms, 'list') and typed(mol._adj_list, 'list') and typed(mol._bond_counts, 'list')
            and typed(mol._ring_bond_flags, 'list') and typed(mol._roots, 'list') and typed(mol._bond_dict, 'dict')
            and typed(mol._delocal_subgraph, 'dict')
            and mol._atoms != mol._adj_list and mol._atoms != mol._bond_counts and mol._atoms != mol._ring_bond_flags
            and mol._atoms != mol._roots and mol._adj_list != mol._bond_counts and mol._adj_list != mol._ring_bond_flags
            and mol._adj_list != mol._roots and mol._bond_counts != mol._ring_bond_flags
            and mol._bond_counts != mol._roots and mol._ring_bond_flags != mol._roots
            and mol._bond_dict != mol._delocal_subgraph
            and len(mol._adj_list) == len(mol._atoms) and len(mol._bond_counts) == len(mol._atoms)
            and len(mol._ring_bond_flags) == len(mol._atoms))


@spec
def wf(mol):
    # representation invariant of MolecularGraph (DESIGN 3, WF): parallel lists of equal length, atoms numbered by
    # position, one private adjacency list per atom, no aliasing between the component containers
    return (typed(mol, 'MolecularGraph')
            and typed(mol._atoms, 'list') and typed(mol._adj_list, 'list') and typed(mol._bond_counts, 'list')
            and typed(mol._ring_bond_flags, 'list') and typed(mol._roots, 'list') and typed(mol._bond_dict, 'dict')
            and typed(mol._delocal_subgraph, 'dict')
            and mol._atoms != mol._adj_list and mol._atoms != mol._bond_counts and mol._atoms != mol._ring_bond_flags
            and mol._atoms != mol._roots and mol._adj_list != mol._bond_counts and mol._adj_list != mol._ring_bond_flags
            and mol._adj_list != mol._roots and mol._bond_counts != mol._ring_bond_flags
            and mol._bond_counts != mol._roots and mol._ring_bond_flags != mol._roots
            and mol._bond_dict != mol._delocal_subgraph
            and len(mol._adj_list) == len(mol._atoms) and len(mol._bond_counts) == len(mol._atoms)
            and len(mol._ring_bond_flags) == len(mol._atoms)
            and all(typed(mol._atoms[i], 'Atom') and mol._atoms[i].index == i for i in range(len(mol._atoms)))
            and all(typed(mol._adj_list[i], 'list') and mol._adj_list[i] != mol._atoms
                    and mol._adj_list[i] != mol._adj_list and mol._adj_list[i] != mol._bond_counts
                    and mol._adj_list[i] != mol._ring_bond_flags and mol._adj_list[i] != mol._roots
                    for i in range(len(mol._atoms)))
            and all(implies(i != j, mol._adj_list[i] != mol._adj_list[j])
                    for i in range(len(mol._atoms)) for j in range(len(mol._atoms)))
            and all(typed(mol._bond_counts[i], 'num') for i in range(len(mol._atoms))))


@contract("selfies/mol_graph.py::MolecularGraph.__len__", props=["C01", "C08"])
def __len__(self: 'MolecularGraph'):
    requires(typed(self._atoms, 'list'))
    pure()
    ensures(typed(result, 'int') and result == len(self._atoms), tag="C01:len")


@contract("selfies/mol_graph.py::MolecularGraph.get_atom", props=["C01", "C08"])
def get_atom(self: 'MolecularGraph', idx: int):
    requires(typed(self._atoms, 'list') and 0 <= idx and idx < len(self._atoms))
    pure()
    ensures(result == self._atoms[idx], tag="C01:get-atom")


@contract("selfies/mol_graph.py::MolecularGraph.get_bond_count", props=["C01", "C06", "C08"])
def get_bond_count(self: 'MolecularGraph', idx: int):
    requires(typed(self._bond_counts, 'list') and 0 <= idx and idx < len(self._bond_counts))
    requires(typed(self._bond_counts[idx], 'num'))
    pure()
    ensures(result == self._bond_counts[idx] and typed(result, 'num')
            and (typed(result, 'int') == typed(self._bond_counts[idx], 'int')), tag="C01,C06:get-bond-count")


@contract("selfies/mol_graph.py::MolecularGraph.has_bond", props=["C01", "C08", "C09"])
def has_bond(self: 'MolecularGraph', a: int, b: int):
    requires(typed(self._bond_dict, 'dict'))
    pure()
    ensures(typed(result, 'bool') and result == ((min(a, b), max(a, b)) in self._bond_dict), tag="C01:has-bond")
    # consequences of bonds_ok for this pair, restated quantifier-free for callers that keep bonds_ok opaque
    ensures(implies(bonds_ok(self) and typed(a, 'int') and typed(b, 'int') and not result,
                    not ((a, b) in self._bond_dict) and not ((b, a) in self._bond_dict)), tag="C01:has-bond-no-reverse")
    ensures(implies(bonds_ok(self) and result, typed(self._bond_dict[(min(a, b), max(a, b))], 'DirectedBond')),
            tag="C01:has-bond-typed")


@contract("selfies/mol_graph.py::MolecularGraph.get_dirbond", props=["C01", "C08"])
def get_dirbond(self: 'MolecularGraph', src, dst):
    requires(typed(self._bond_dict, 'dict') and ((src, dst) in self._bond_dict))
    requires(typed(self._bond_dict[(src, dst)], 'DirectedBond'))
    pure()
    ensures(typed(result, 'DirectedBond') and not fresh(result) and result == self._bond_dict[(src, dst)],
            tag="C01:get-dirbond")
    # what bonds_ok says about this particular bond, restated quantifier-free for the caller
    ensures(implies(old(bonds_ok(self)), typed(result.order, 'int') and 1 <= result.order and result.order <= 3
                    and typed(result.ring_bond, 'bool')
                    and implies(result.ring_bond, ((dst, src) in self._bond_dict)
                                and self._bond_dict[(dst, src)] != result
                                and typed(self._bond_dict[(dst, src)], 'DirectedBond')
                                and self._bond_dict[(dst, src)].order == result.order)), tag="C01:get-dirbond-facts")


@contract("selfies/mol_graph.py::MolecularGraph.add_atom", props=["C01", "C02", "C08"])
def add_atom(self: 'MolecularGraph', atom: 'Atom', mark_root: bool = False):
    requires(wf(self))
    requires(all(self._atoms[i] != atom for i in range(len(self._atoms))))
    requires(typed(atom.is_aromatic, 'bool'))
    modifies(atom, self._roots, self._atoms, self._adj_list, self._bond_counts, self._ring_bond_flags,
             self._delocal_subgraph)
    ensures(result == atom, tag="C01:add-atom-result")
    ensures(wf(self), tag="C01:add-atom-wf")
    ensures(wf_basic(self), tag="C01:wf-basic")
    ensures(len(self._atoms) == old(len(self._atoms)) + 1 and self._atoms[old(len(self._atoms))] == atom
            and atom.index == old(len(self._atoms)), tag="C01,C02:add-atom-appended")
    ensures(all(self._atoms[i] == old(self._atoms[i]) for i in range(old(len(self._atoms)))), tag="C01:add-atom-others")
    ensures(self._bond_counts[old(len(self._atoms))] == 0
            and all(self._bond_counts[i] == old(self._bond_counts[i]) for i in range(old(len(self._atoms)))),
            tag="C01:add-atom-counts")
    ensures(len(self._adj_list[old(len(self._atoms))]) == 0 and fresh(self._adj_list[old(len(self._atoms))])
            and all(self._adj_list[i] == old(self._adj_list[i]) for i in range(old(len(self._atoms)))),
            tag="C01,C02:add-atom-adjacency")
    ensures(len(self._roots) == old(len(self._roots)) + (1 if mark_root else 0)
            and implies(mark_root, self._roots[old(len(self._roots))] == old(len(self._atoms)))
            and all(self._roots[i] == old(self._roots[i]) for i in range(old(len(self._roots)))),
            tag="C02:add-atom-roots")
    ensures(self._atoms == old(self._atoms) and self._adj_list == old(self._adj_list)
            and self._bond_counts == old(self._bond_counts) and self._bond_dict == old(self._bond_dict)
            and self._roots == old(self._roots) and self._ring_bond_flags == old(self._ring_bond_flags),
            tag="C01:add-atom-same-containers")


@spec
def unchanged_structure(self):
    # the component containers are the same objects as before and the atom list did not change
    return (self._atoms == old(self._atoms) and self._adj_list == old(self._adj_list)
            and self._bond_counts == old(self._bond_counts) and self._bond_dict == old(self._bond_dict)
            and self._roots == old(self._roots) and self._ring_bond_flags == old(self._ring_bond_flags)
            and len(self._atoms) == old(len(self._atoms))
            and all(self._atoms[i] == old(self._atoms[i]) for i in range(len(self._atoms)))
            and all(self._adj_list[i] == old(self._adj_list[i]) for i in range(len(self._atoms))))


@contract("selfies/mol_graph.py::MolecularGraph.add_bond", props=["C01", "C02", "C08"])
def add_bond(self: 'MolecularGraph', src: int, dst: int, order: int, stereo: 'str|None'):
    # integer bond orders only (the decoder side); the parser's aromatic order 1.5 additionally touches the
    # delocalisation subgraph and is outside this contract (covered by the bounded encoder checks)
    requires(wf(self))
    requires(0 <= src and src < dst and dst < len(self._atoms))
    requires(1 <= order and order <= 3)
    requires(typed(self._bond_counts[src], 'int') and typed(self._bond_counts[dst], 'int'))
    modifies(self._bond_dict, self._adj_list[src], self._bond_counts)
    ensures(wf(self) and unchanged_structure(self), tag="C01:add-bond-wf")
    ensures(wf_basic(self), tag="C01:wf-basic")
    ensures(fresh(result) and typed(result, 'DirectedBond') and result.src == src and result.dst == dst
            and result.order == order and result.stereo == stereo and result.ring_bond == False,
            tag="C01,C02:add-bond-result")
    ensures(((src, dst) in self._bond_dict) and self._bond_dict[(src, dst)] == result, tag="C01:add-bond-dict")
    ensures(all(implies(k != (src, dst), ((k in self._bond_dict) == old(k in self._bond_dict))
                        and implies(k in self._bond_dict, self._bond_dict[k] == old(self._bond_dict[k])))
                for k in anyvalue()), tag="C01:add-bond-dict-others")
    ensures(self._bond_counts[src] == old(self._bond_counts[src]) + order
            and self._bond_counts[dst] == old(self._bond_counts[dst]) + order
            and all(implies(i != src and i != dst, self._bond_counts[i] == old(self._bond_counts[i]))
                    for i in range(len(self._atoms))), tag="C01:add-bond-counts")
    ensures(len(self._adj_list[src]) == old(len(self._adj_list[src])) + 1
            and self._adj_list[src][old(len(self._adj_list[src]))] == result
            and all(self._adj_list[src][j] == old(self._adj_list[src][j]) for j in range(old(len(self._adj_list[src])))),
            tag="C01,C02:add-bond-adjacency")


@contract("selfies/mol_graph.py::MolecularGraph.add_ring_bond", props=["C01", "C02", "C08"])
def add_ring_bond(self: 'MolecularGraph', a: int, b: int, order: int, a_stereo: 'str|None', b_stereo: 'str|None',
                  a_pos: int = -1, b_pos: int = -1):
    # integer orders and real (non-placeholder) insertion positions: the decoder side
    requires(wf(self))
    requires(0 <= a and a < len(self._atoms) and 0 <= b and b < len(self._atoms) and a != b)
    requires(1 <= order and order <= 3)
    requires(0 <= a_pos and a_pos <= len(self._adj_list[a]) and 0 <= b_pos and b_pos <= len(self._adj_list[b]))
    requires(adj_ok(self) and bonds_ok(self))
    requires(not ((a, b) in self._bond_dict) and not ((b, a) in self._bond_dict))
    requires(typed(self._bond_counts[a], 'int') and typed(self._bond_counts[b], 'int'))
    modifies(self._bond_dict, self._adj_list[a], self._adj_list[b], self._bond_counts, self._ring_bond_flags)
    ensures(wf(self) and unchanged_structure(self), tag="C01:ring-bond-wf")
    ensures(wf_basic(self), tag="C01:wf-basic")
    ensures(adj_ok(self), tag="C01:ring-bond-adjacency-no-placeholder")
    ensures(bonds_ok(self), tag="C01:ring-bond-keeps-bond-table-consistent")
    ensures(((a, b) in self._bond_dict) and ((b, a) in self._bond_dict)
            and fresh(self._bond_dict[(a, b)]) and fresh(self._bond_dict[(b, a)])
            and self._bond_dict[(a, b)] != self._bond_dict[(b, a)]
            and self._bond_dict[(a, b)].src == a and self._bond_dict[(a, b)].dst == b
            and self._bond_dict[(a, b)].order == order and self._bond_dict[(a, b)].stereo == a_stereo
            and self._bond_dict[(a, b)].ring_bond == True
            and self._bond_dict[(b, a)].src == b and self._bond_dict[(b, a)].dst == a
            and self._bond_dict[(b, a)].order == order and self._bond_dict[(b, a)].stereo == b_stereo
            and self._bond_dict[(b, a)].ring_bond == True, tag="C01,C02:ring-bond-dict")
    ensures(all(implies(k != (a, b) and k != (b, a), ((k in self._bond_dict) == old(k in self._bond_dict))
                        and implies(k in self._bond_dict, self._bond_dict[k] == old(self._bond_dict[k])))
                for k in anyvalue()), tag="C01:ring-bond-dict-others")
    ensures(self._bond_counts[a] == old(self._bond_counts[a]) + order
            and self._bond_counts[b] == old(self._bond_counts[b]) + order
            and all(implies(i != a and i != b, self._bond_counts[i] == old(self._bond_counts[i]))
                    for i in range(len(self._atoms))), tag="C01:ring-bond-counts")
    # the new directed bonds are inserted at a_pos / b_pos, shifting later entries (written neighbour order)
    ensures(len(self._adj_list[a]) == old(len(self._adj_list[a])) + 1
            and self._adj_list[a][a_pos] == self._bond_dict[(a, b)]
            and all(self._adj_list[a][j] == old(self._adj_list[a][j]) for j in range(a_pos))
            and all(self._adj_list[a][j + 1] == old(self._adj_list[a][j]) for j in range(a_pos, old(len(self._adj_list[a])))),
            tag="C02:ring-bond-adjacency-a")
    ensures(len(self._adj_list[b]) == old(len(self._adj_list[b])) + 1
            and self._adj_list[b][b_pos] == self._bond_dict[(b, a)]
            and all(self._adj_list[b][j] == old(self._adj_list[b][j]) for j in range(b_pos))
            and all(self._adj_list[b][j + 1] == old(self._adj_list[b][j]) for j in range(b_pos, old(len(self._adj_list[b])))),
            tag="C02:ring-bond-adjacency-b")


@contract("selfies/mol_graph.py::MolecularGraph.update_bond_order", props=["C01", "C02", "C08"])
def update_bond_order(self: 'MolecularGraph', a: int, b: int, new_order: int):
    requires(wf(self))
    requires(0 <= a and a < len(self._atoms) and 0 <= b and b < len(self._atoms) and a != b)
    requires(1 <= new_order and new_order <= 3)
    requires((min(a, b), max(a, b)) in self._bond_dict)
    requires(typed(self._bond_dict[(min(a, b), max(a, b))], 'DirectedBond')
             and typed(self._bond_dict[(min(a, b), max(a, b))].order, 'int'))
    requires(implies(self._bond_dict[(min(a, b), max(a, b))].ring_bond,
                     ((max(a, b), min(a, b)) in self._bond_dict)
                     and typed(self._bond_dict[(max(a, b), min(a, b))], 'DirectedBond')
                     and self._bond_dict[(max(a, b), min(a, b))] != self._bond_dict[(min(a, b), max(a, b))]
                     and self._bond_dict[(max(a, b), min(a, b))].order == self._bond_dict[(min(a, b), max(a, b))].order))
    requires(typed(self._bond_counts[a], 'int') and typed(self._bond_counts[b], 'int'))
    requires(adj_ok(self) and bonds_ok(self))
    modifies(self._bond_dict[(min(a, b), max(a, b))], self._bond_dict[(max(a, b), min(a, b))], self._bond_counts)
    ensures(wf(self) and unchanged_structure(self), tag="C01:update-wf")
    ensures(wf_basic(self), tag="C01:wf-basic")
    ensures(adj_ok(self), tag="C01:update-adjacency-untouched")
    ensures(bonds_ok(self), tag="C01:update-keeps-bond-table-consistent")
    ensures(self._bond_dict[(min(a, b), max(a, b))].order == new_order, tag="C01,C02:update-order")
    ensures(implies(self._bond_dict[(min(a, b), max(a, b))].ring_bond,
                    self._bond_dict[(max(a, b), min(a, b))].order == new_order), tag="C01:update-order-reverse")
    ensures(self._bond_counts[a] == old(self._bond_counts[a]) + new_order - old(self._bond_dict[(min(a, b), max(a, b))].order)
            and self._bond_counts[b] == old(self._bond_counts[b]) + new_order
            - old(self._bond_dict[(min(a, b), max(a, b))].order)
            and all(implies(i != a and i != b, self._bond_counts[i] == old(self._bond_counts[i]))
                    for i in range(len(self._atoms))), tag="C01:update-counts")
    ensures(all((k in self._bond_dict) == old(k in self._bond_dict)
                and implies(k in self._bond_dict, self._bond_dict[k] == old(self._bond_dict[k])) for k in anyvalue()),
            tag="C01:update-dict-same-bonds")


@spec
def capH(atom):
    # bonding capacity of an atom under the table in force: table capacity minus explicit hydrogens
    return ((_current_constraints[cap_key(atom.element, atom.charge)]
             if cap_key(atom.element, atom.charge) in _current_constraints else _current_constraints["?"])
            - (0 if atom.h_count is None else atom.h_count))


@contract("selfies/mol_graph.py::Atom.bonding_capacity", props=["C01", "C06", "C11"])
def bonding_capacity(self: 'Atom'):
    requires(table_ok(_current_constraints))
    requires(typed(self.element, 'str') and typed(self.charge, 'int') and typed(self.h_count, 'int|None'))
    pure()
    ensures(typed(result, 'int') and result == capH(self), tag="C01,C06:capacity-minus-H")


@spec
def atoms_ok(mol):
    return all(typed(mol._atoms[i].element, 'str') and typed(mol._atoms[i].charge, 'int')
               and typed(mol._atoms[i].h_count, 'int|None') for i in range(len(mol._atoms)))


@spec
def val_ok(mol):
    # VAL: every atom's running bond-order sum is an int within [0, capacity - explicit H] under the table in force
    return all(typed(mol._bond_counts[i], 'int') and 0 <= mol._bond_counts[i]
               and mol._bond_counts[i] <= capH(mol._atoms[i]) for i in range(len(mol._atoms)))


@spec
def bonds_ok(mol):
    # every directed bond has an integer order 1..3; a ring bond has a distinct reverse twin of equal order
    return all(implies(k in mol._bond_dict,
                       typed(k, 'tuple[int,int]')
                       and typed(mol._bond_dict[k], 'DirectedBond')
                       and mol._bond_dict[k].src == k[0] and mol._bond_dict[k].dst == k[1]
                       and typed(mol._bond_dict[k].order, 'int')
                       and 1 <= mol._bond_dict[k].order and mol._bond_dict[k].order <= 3
                       and typed(mol._bond_dict[k].ring_bond, 'bool')
                       and implies(k[0] > k[1], mol._bond_dict[k].ring_bond) and k[0] != k[1]
                       and implies(mol._bond_dict[k].ring_bond,
                                   ((k[1], k[0]) in mol._bond_dict)
                                   and mol._bond_dict[(k[1], k[0])] != mol._bond_dict[k]
                                   and mol._bond_dict[(k[1], k[0])].order == mol._bond_dict[k].order
                                   and mol._bond_dict[(k[1], k[0])].ring_bond))
               for k in anyvalue())


@spec
def adj_ok(mol):
    return all(all(mol._adj_list[i][j] is not None for j in range(len(mol._adj_list[i])))
               for i in range(len(mol._atoms)))


@contract("selfies/mol_graph.py::MolecularGraph.get_atoms", props=["C06", "C08"])
def get_atoms(self: 'MolecularGraph'):
    requires(typed(self._atoms, 'list'))
    pure()
    ensures(result == self._atoms, tag="C06:get-atoms")


@contract("selfies/mol_graph.py::MolecularGraph.add_attribution", props=["C08", "C17"])
def add_attribution(self: 'MolecularGraph', o, attr):
    # attribution-free translation only (attribute=False); with attribution on, the bounded C17 check applies
    requires(typed(self._attributable, 'bool') and not self._attributable)
    pure()
    ensures(typed(result, 'None'), tag="C17:no-attribution-no-effect")


@spec
def in_mol(mol, a):
    return (typed(a, 'Atom') and not fresh(a) and typed(a.index, 'int') and 0 <= a.index and a.index < len(mol._atoms)
            and mol._atoms[a.index] == a
            and typed(a.element, 'str') and typed(a.charge, 'int') and typed(a.h_count, 'int|None'))
