"""Contracts for selfies/decoder.py."""
from pyvc.api import *


@spec
def sym_at(it, p, i):
    # digit of the i-th symbol read from position p of the token iterator; a missing symbol counts 0
    return idx(iter_item(it, p + i)[1]) if p + i < iter_len(it) else 0


@contract("selfies/decoder.py::_read_index_from_selfies", props=["C16", "C02", "C08"])
def _read_index_from_selfies(symbol_iter: 'iter[tuple[int,str]]', n_symbols: int):
    requires(1 <= n_symbols and n_symbols <= 3)
    modifies(symbol_iter)
    # a lazily detected hanging '[' surfaces as DecoderError from the token generator when it is exhausted
    raises(DecoderError, when=iter_exc(symbol_iter) == 1 and iter_pos(symbol_iter) + n_symbols > iter_len(symbol_iter))
    ensures(implies(iter_exc(symbol_iter) == 1, old(iter_pos(symbol_iter)) + n_symbols <= iter_len(symbol_iter)),
            tag="C08:no-silent-malformed")
    ensures(iter_pos(symbol_iter) == min(old(iter_pos(symbol_iter)) + n_symbols, iter_len(symbol_iter)),
            tag="C02,C16:advance")
    ensures(implies(n_symbols == 1, result == sym_at(symbol_iter, old(iter_pos(symbol_iter)), 0)), tag="C16:read1")
    ensures(implies(n_symbols == 2, result == 16 * sym_at(symbol_iter, old(iter_pos(symbol_iter)), 0)
                    + sym_at(symbol_iter, old(iter_pos(symbol_iter)), 1)), tag="C16:read2")
    ensures(implies(n_symbols == 3, result == 256 * sym_at(symbol_iter, old(iter_pos(symbol_iter)), 0)
                    + 16 * sym_at(symbol_iter, old(iter_pos(symbol_iter)), 1)
                    + sym_at(symbol_iter, old(iter_pos(symbol_iter)), 2)), tag="C16:read3")
    ensures(isinstance(result, int) and 0 <= result and result < 4096, tag="C16:Qrange")
    unroll("for _ in range(n_symbols)", 3)
