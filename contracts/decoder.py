"""Contracts for selfies/decoder.py."""
from pyvc.api import *


@spec
def sym_at(it, p, i):
    # digit of the i-th symbol read from position p of the token iterator; a missing symbol counts 0
    return idx(iter_item(it, p + i)[1]) if p + i < iter_len(it) else 0


@contract("selfies/decoder.py::_read_index_from_selfies", props=["C16", "C02", "C08"])
def _read_index_from_selfies(symbol_iter: 'iter[tuple[int,str]]', n_symbols: int):
    requires(1 <= n_symbols and n_symbols <= 3)
    modifies(symbol_iter)
    # a lazily detected hanging '[' surfaces as DecoderError from the token generator when it is exhausted
    raises(DecoderError, when=iter_exc(symbol_iter) == 1 and iter_pos(symbol_iter) + n_symbols > iter_len(symbol_iter))
    ensures(implies(iter_exc(symbol_iter) == 1, old(iter_pos(symbol_iter)) + n_symbols <= iter_len(symbol_iter)),
            tag="C08:no-silent-malformed")
    ensures(iter_pos(symbol_iter) == min(old(iter_pos(symbol_iter)) + n_symbols, iter_len(symbol_iter)),
            tag="C02,C16:advance")
    ensures(implies(n_symbols == 1, result == sym_at(symbol_iter, old(iter_pos(symbol_iter)), 0)), tag="C16:read1")
    ensures(implies(n_symbols == 2, result == 16 * sym_at(symbol_iter, old(iter_pos(symbol_iter)), 0)
                    + sym_at(symbol_iter, old(iter_pos(symbol_iter)), 1)), tag="C16:read2")
    ensures(implies(n_symbols == 3, result == 256 * sym_at(symbol_iter, old(iter_pos(symbol_iter)), 0)
                    + 16 * sym_at(symbol_iter, old(iter_pos(symbol_iter)), 1)
                    + sym_at(symbol_iter, old(iter_pos(symbol_iter)), 2)), tag="C16:read3")
    ensures(isinstance(result, int) and 0 <= result and result < 4096, tag="C16:Qrange")
    unroll("for _ in range(n_symbols)", 3)


@spec
def ring_ok(mol, r):
    # a recorded ring request (left atom, right atom, (order, (left stereo, right stereo))) between atoms of mol
    return (typed(r, 'tuple[Atom,Atom,tuple[int,tuple[str|None,str|None]]]')
            and typed(r[0].index, 'int') and typed(r[1].index, 'int')
            and 0 <= r[0].index and r[0].index <= r[1].index and r[1].index < len(mol._atoms)
            and mol._atoms[r[0].index] == r[0] and mol._atoms[r[1].index] == r[1]
            and typed(r[0].element, 'str') and typed(r[0].charge, 'int') and typed(r[0].h_count, 'int|None')
            and typed(r[1].element, 'str') and typed(r[1].charge, 'int') and typed(r[1].h_count, 'int|None')
            and 1 <= r[2][0] and r[2][0] <= 3)


@contract("selfies/decoder.py::_form_rings_bilocally", props=["C01", "C02", "C08"])
def _form_rings_bilocally(mol: 'MolecularGraph', rings: list):
    requires(table_ok(_current_constraints))
    requires(_current_constraints != mol._bond_dict and _current_constraints != mol._delocal_subgraph)
    requires(wf(mol) and wf_basic(mol) and atoms_ok(mol) and val_ok(mol) and bonds_ok(mol) and adj_ok(mol))
    requires(rings != mol._atoms and rings != mol._adj_list and rings != mol._bond_counts
             and rings != mol._ring_bond_flags and rings != mol._roots
             and all(rings != mol._adj_list[i] for i in range(len(mol._atoms))))
    requires(all(ring_ok(mol, rings[j]) for j in range(len(rings))))
    opaque("bonds_ok", "adj_ok", "cap_key")
    modifies(mol._bond_dict, mol._bond_counts, mol._ring_bond_flags,
             each(mol._adj_list[i] for i in range(len(mol._atoms))),
             each(mol._bond_dict[k] for k in anyvalue() if k in mol._bond_dict))
    ensures(wf(mol) and atoms_ok(mol) and bonds_ok(mol) and adj_ok(mol), tag="C01:rings-keep-graph-well-formed")
    ensures(val_ok(mol), tag="C01:rings-respect-valence")
    ensures(len(mol._atoms) == old(len(mol._atoms)), tag="C01:rings-add-no-atoms")
    invariant("for latom, ratom, bond_info in rings",
              wf(mol) and wf_basic(mol) and atoms_ok(mol) and bonds_ok(mol) and adj_ok(mol)
              and unchanged_structure(mol), tag="graph")
    invariant("for latom, ratom, bond_info in rings", val_ok(mol), tag="valence")
    invariant("for latom, ratom, bond_info in rings",
              all(implies(old(k in mol._bond_dict), (k in mol._bond_dict) and mol._bond_dict[k] == old(mol._bond_dict[k]))
                  for k in anyvalue())
              and all(implies((k in mol._bond_dict) and not old(k in mol._bond_dict), fresh(mol._bond_dict[k]))
                      for k in anyvalue()), tag="old-bonds-kept-new-bonds-fresh")
    invariant("for latom, ratom, bond_info in rings",
              table_ok(_current_constraints) and _current_constraints == old(_current_constraints)
              and same_dict_state(_current_constraints), tag="table-untouched")
    invariant("for latom, ratom, bond_info in rings",
              typed(rings_made, 'list') and fresh(rings_made) and len(rings_made) == len(mol._atoms)
              and all(typed(rings_made[i], 'int') and 0 <= rings_made[i] and rings_made[i] <= len(mol._adj_list[i])
                      for i in range(len(mol._atoms))), tag="insert-positions")
    invariant("for latom, ratom, bond_info in rings",
              all(ring_ok(mol, rings[j]) and not fresh(rings[j][0]) and not fresh(rings[j][1])
                  for j in range(len(rings))) and len(rings) == old(len(rings)),
              tag="requests-unchanged")


@contract("selfies/decoder.py::_tokenize_selfies", props=["C13", "C08", "C18"])
def _tokenize_selfies(selfies: str, compatible: bool):
    # the decoder's token generator: [nop] is dropped before anything else sees a symbol, and the tokenizer's
    # ValueError (hanging '[') leaves only as DecoderError
    # with compatible=True each symbol additionally passes through modernize_symbol, whose contract covers ASCII
    # symbols of bounded length (the atom parser's domain)
    requires(implies(compatible, ascii_str(selfies) and len(selfies) <= 3990))
    raises(DecoderError)
    yields_type('str')
    yields(typed(item, 'str') and implies(not compatible, item != "[nop]"), tag="C13:nop-never-reaches-the-derivation")
    invariant("for symbol in symbol_iter", True, tag="none-needed")
