"""Contracts for selfies/encoder.py."""
from pyvc.api import *


@contract("selfies/encoder.py::_bond_to_selfies", props=["C03", "C04", "C10"])
def _bond_to_selfies(bond: 'DirectedBond', show_stereo: bool = True):
    requires(bond.order == 1 or bond.order == 2 or bond.order == 3)
    ensures(result == ("=" if bond.order == 2 else "#" if bond.order == 3 else
                       (bond.stereo if (show_stereo and (bond.stereo == "/" or bond.stereo == "\\")) else "")),
            tag="C03,C04:bond-prefix")


@contract("selfies/encoder.py::_ring_bonds_to_selfies", props=["C03", "C04", "C10"])
def _ring_bonds_to_selfies(lbond: 'DirectedBond', rbond: 'DirectedBond'):
    requires(lbond.order == rbond.order)
    requires(lbond.order == 1 or lbond.order == 2 or lbond.order == 3)
    requires(typed(lbond.stereo, 'None') or lbond.stereo == "/" or lbond.stereo == "\\")
    requires(typed(rbond.stereo, 'None') or rbond.stereo == "/" or rbond.stereo == "\\")
    # ring symbol prefix: '=' / '#' for double / triple; '' for a plain single bond; otherwise two characters, one per
    # end ('-' where that end carries no mark) - the form the decoder's ring table maps back to (order, (lst, rst))
    ensures(implies(lbond.order == 2, result == "="), tag="C03:ring-double")
    ensures(implies(lbond.order == 3, result == "#"), tag="C03:ring-triple")
    ensures(implies(lbond.order == 1 and typed(lbond.stereo, 'None') and typed(rbond.stereo, 'None'), result == ""),
            tag="C03:ring-single-plain")
    ensures(implies(lbond.order == 1 and not (typed(lbond.stereo, 'None') and typed(rbond.stereo, 'None')),
                    result == ("-" if typed(lbond.stereo, 'None') else lbond.stereo)
                    + ("-" if typed(rbond.stereo, 'None') else rbond.stereo)), tag="C04:ring-stereo-both-ends")


@contract("selfies/encoder.py::_check_bond_constraints", props=["C06", "C09"])
def _check_bond_constraints(mol: 'MolecularGraph', smiles: str):
    opaque("cap_key")
    requires(table_ok(_current_constraints))
    requires(wf(mol))
    requires(all(atom_fields_ok(mol._atoms[i]) and not mol._atoms[i].is_aromatic and typed(mol._bond_counts[i], 'int')
                 for i in range(len(mol._atoms))))
    # strict encoding rejects exactly the molecules in which some atom exceeds its capacity (table - explicit H)
    raises(EncoderError, when=any(mol._bond_counts[i] > capH(mol._atoms[i]) for i in range(len(mol._atoms))))
    ensures(not any(mol._bond_counts[i] > capH(mol._atoms[i]) for i in range(len(mol._atoms))),
            tag="C06:accepts-only-within-capacity")
    invariant("for atom in mol.get_atoms()",
              typed(errors, 'list') and fresh(errors)
              and implies(len(errors) == 0, all(not (mol._bond_counts[i] > capH(mol._atoms[i])) for i in range(_k)))
              and implies(len(errors) > 0, any(mol._bond_counts[i] > capH(mol._atoms[i]) for i in range(_k)))
              and all(typed(errors[j], 'tuple[str,int,int]') for j in range(len(errors))), tag="errors-iff-violation-seen")
    invariant("for e in errors", typed(err_msg, 'str')
              and all(typed(errors[j], 'tuple[str,int,int]') for j in range(len(errors))), tag="message-building")
