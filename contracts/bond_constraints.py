"""Contracts for selfies/bond_constraints.py (configuration API, capacity lookup, memo coherence)."""
from pyvc.api import *

# module-level mutable state modelled on the heap
GLOBALS = {"selfies/bond_constraints.py::_current_constraints": "dict"}
# lru_cache tables whose entries depend on a global: writing the global marks them stale, cache_clear() cleans them
MEMO_DEPENDS = {"selfies/bond_constraints.py::_current_constraints": [
    "selfies/bond_constraints.py::get_semantic_robust_alphabet",
    "selfies/bond_constraints.py::get_bonding_capacity"]}

PRESET_NAMES = ("default", "octet_rule", "hypervalent")
# documented presets: _DEFAULT_CONSTRAINTS plus the table in the docstring of get_preset_constraints
# (props/C12 compares the running module's presets, read in a fresh interpreter, with these on every run)
PRESET_DEFAULT = {"H": 1, "F": 1, "Cl": 1, "Br": 1, "I": 1, "B": 3, "B+1": 2, "B-1": 4, "O": 2, "O+1": 3, "O-1": 1,
                  "N": 3, "N+1": 4, "N-1": 2, "C": 4, "C+1": 3, "C-1": 3, "P": 5, "P+1": 4, "P-1": 6, "S": 6, "S+1": 5,
                  "S-1": 5, "?": 8}
PRESET_OCTET = {"H": 1, "F": 1, "Cl": 1, "Br": 1, "I": 1, "B": 3, "B+1": 2, "B-1": 4, "O": 2, "O+1": 3, "O-1": 1,
                "N": 3, "N+1": 4, "N-1": 2, "C": 4, "C+1": 3, "C-1": 3, "P": 3, "P+1": 4, "P-1": 2, "S": 2, "S+1": 3,
                "S-1": 1, "?": 8}
PRESET_HYPER = {"H": 1, "F": 1, "Cl": 7, "Br": 7, "I": 7, "B": 3, "B+1": 2, "B-1": 4, "O": 2, "O+1": 3, "O-1": 1,
                "N": 5, "N+1": 4, "N-1": 2, "C": 4, "C+1": 3, "C-1": 3, "P": 5, "P+1": 4, "P-1": 6, "S": 6, "S+1": 5,
                "S-1": 5, "?": 8}


@spec
def table_ok(t):
    # representation invariant of the table in force: a dict with a '?' entry whose values are non-negative ints
    return (typed(t, 'dict') and ("?" in t)
            and all(implies(k in t, typed(t[k], 'int') and t[k] >= 0) for k in anyvalue()))


@spec
def config_ok():
    # module invariant at every public entry and exit: valid table, no stale memo entries
    return (table_ok(_current_constraints)
            and memo_clean("selfies/bond_constraints.py::get_semantic_robust_alphabet")
            and memo_clean("selfies/bond_constraints.py::get_bonding_capacity"))


@spec
def cap_key(element, charge):
    # 'E', 'E+n', 'E-n'
    return element + ("" if charge == 0 else ("+" + str(charge) if charge > 0 else "-" + str(0 - charge)))


@contract("selfies/bond_constraints.py::get_preset_constraints", props=["C12", "C11"])
def get_preset_constraints(name: str):
    raises(ValueError, when=name not in PRESET_NAMES, unchanged=True)
    ensures(name in PRESET_NAMES, tag="C12:unknown-preset-rejected")
    ensures(typed(result, 'dict') and fresh(result), tag="C12:preset-copy-fresh")
    ensures(implies(name == "default", dict_eq(result, PRESET_DEFAULT)), tag="C12:preset-default")
    ensures(implies(name == "octet_rule", dict_eq(result, PRESET_OCTET)), tag="C12:preset-octet")
    ensures(implies(name == "hypervalent", dict_eq(result, PRESET_HYPER)), tag="C12:preset-hyper")


@contract("selfies/bond_constraints.py::get_semantic_constraints", props=["C12", "C11"])
def get_semantic_constraints():
    requires(table_ok(_current_constraints))
    ensures(typed(result, 'dict') and fresh(result), tag="C12:get-copy-fresh")
    ensures(dict_eq(result, _current_constraints), tag="C12:get-faithful")
    ensures(_current_constraints == old(_current_constraints) and same_dict_state(_current_constraints),
            tag="C12:get-no-effect")


@contract("selfies/bond_constraints.py::set_semantic_constraints", props=["C12", "C11", "C06", "C07"])
def set_semantic_constraints(bond_constraints: 'str|dict[str]|int|None|tuple'):
    requires(config_ok())
    # assumption (stated in the evidence): capacities given as bool (True/False pass isinstance(value, int)) are not modelled
    requires(implies(typed(bond_constraints, 'dict'),
                     all(implies(k in bond_constraints, not typed(bond_constraints[k], 'bool')) for k in anyvalue())))
    modifies_global("_current_constraints")
    raises(ValueError)
    # atomic rejection: on every exceptional exit nothing observable changed
    ensures_on_raise(_current_constraints == old(_current_constraints), tag="C12:atomic-table-ref")
    ensures_on_raise(same_dict_state(old(_current_constraints)), tag="C12:atomic-table-contents")
    ensures_on_raise(config_ok(), tag="C11,C12:atomic-memos")
    # successful update: a private copy is installed and both memo tables are cleared
    ensures(typed(bond_constraints, 'str') or typed(bond_constraints, 'dict'), tag="C12:wrong-type-rejected")
    ensures(fresh(_current_constraints), tag="C12:set-installs-private-copy")
    ensures(implies(typed(bond_constraints, 'dict'), dict_eq(_current_constraints, bond_constraints)),
            tag="C12:set-faithful")
    ensures(implies(typed(bond_constraints, 'dict'), same_dict_state(bond_constraints)), tag="C12:argument-untouched")
    ensures(implies(bond_constraints == "default", dict_eq(_current_constraints, PRESET_DEFAULT)),
            tag="C12:set-preset-default")
    ensures(implies(bond_constraints == "octet_rule", dict_eq(_current_constraints, PRESET_OCTET)),
            tag="C12:set-preset-octet")
    ensures(implies(bond_constraints == "hypervalent", dict_eq(_current_constraints, PRESET_HYPER)),
            tag="C12:set-preset-hyper")
    ensures(implies(typed(bond_constraints, 'str'), bond_constraints in PRESET_NAMES), tag="C12:unknown-preset-rejected")
    ensures(config_ok(), tag="C11:memos-cleared-after-update")
    ensures(same_dict_state(old(_current_constraints)), tag="C12:old-table-object-untouched")
    invariant("for key, value in bond_constraints.items()",
              all(typed(bond_constraints[dict_key_at(bond_constraints, j)], 'int')
                  and bond_constraints[dict_key_at(bond_constraints, j)] >= 0 for j in range(_k)), tag="values-seen-valid")


@contract("selfies/bond_constraints.py::get_bonding_capacity", props=["C06", "C01", "C11"])
def get_bonding_capacity(element: str, charge: int):
    requires(table_ok(_current_constraints))
    ensures(result == (_current_constraints[cap_key(element, charge)]
                       if cap_key(element, charge) in _current_constraints else _current_constraints["?"]),
            tag="C06:capacity-lookup")
    ensures(_current_constraints == old(_current_constraints) and same_dict_state(_current_constraints),
            tag="C11:lookup-no-effect")
    ensures(typed(result, 'int') and result >= 0, tag="C01:capacity-nonnegative-int")


INDEX_SYMBOLS = ("[C]", "[Ring1]", "[Ring2]", "[Branch1]", "[=Branch1]", "[#Branch1]", "[Branch2]", "[=Branch2]",
                 "[#Branch2]", "[O]", "[N]", "[=N]", "[=C]", "[#C]", "[S]", "[P]")
FIXED_SYMBOLS = ("[Ring1]", "[=Ring1]", "[Branch1]", "[=Branch1]", "[#Branch1]", "[Ring2]", "[=Ring2]", "[Branch2]",
                 "[=Branch2]", "[#Branch2]", "[Ring3]", "[=Ring3]", "[Branch3]", "[=Branch3]", "[#Branch3]")


@spec
def atom_symbols_for(result, key, cap):
    # for an atom type listed in the table: every bond prefix whose order does not exceed its capacity
    return (implies(1 <= cap, ("[" + key + "]") in result) and implies(2 <= cap, ("[=" + key + "]") in result)
            and implies(3 <= cap, ("[#" + key + "]") in result))


@contract("selfies/bond_constraints.py::get_semantic_robust_alphabet", props=["C07", "C11"])
def get_semantic_robust_alphabet():
    # the un-memoised body; the lru_cache in front of it is covered by the memo-coherence clauses of
    # set_semantic_constraints (cleared on every table change) - that it hands out the cached set is a known finding
    requires(table_ok(_current_constraints))
    requires(all(implies(k in _current_constraints, typed(k, 'str')) for k in anyvalue()))
    ensures(typed(result, 'set') and fresh(result), tag="C07:alphabet-is-a-new-set")
    ensures(all(s in result for s in INDEX_SYMBOLS), tag="C07:all-sixteen-index-symbols")
    ensures(all(s in result for s in FIXED_SYMBOLS), tag="C07:branch-and-ring-symbols")
    # stated over the positions of the table's (abstract) iteration order; every key of the table sits at one of them
    ensures(all(implies(dict_key_at(_current_constraints, j) != "?",
                        atom_symbols_for(result, dict_key_at(_current_constraints, j),
                                         _current_constraints[dict_key_at(_current_constraints, j)]))
                for j in range(len(_current_constraints))), tag="C07:every-listed-atom-with-every-admissible-prefix")
    ensures(_current_constraints == old(_current_constraints) and same_dict_state(_current_constraints),
            tag="C11:alphabet-does-not-touch-the-table")
    invariant("for (a, c), (b, m) in product(_current_constraints.items(), bonds.items())",
              typed(alphabet_subset, 'set') and fresh(alphabet_subset)
              and _current_constraints == old(_current_constraints) and same_dict_state(_current_constraints)
              and all(implies(dict_key_at(_current_constraints, j) != "?",
                              atom_symbols_for(alphabet_subset, dict_key_at(_current_constraints, j),
                                               _current_constraints[dict_key_at(_current_constraints, j)]))
                      for j in range(div(_k, 3)))
              and implies(dict_key_at(_current_constraints, div(_k, 3)) != "?" and mod(_k, 3) >= 1
                          and 1 <= _current_constraints[dict_key_at(_current_constraints, div(_k, 3))],
                          ("[" + dict_key_at(_current_constraints, div(_k, 3)) + "]") in alphabet_subset)
              and implies(dict_key_at(_current_constraints, div(_k, 3)) != "?" and mod(_k, 3) >= 2
                          and 2 <= _current_constraints[dict_key_at(_current_constraints, div(_k, 3))],
                          ("[=" + dict_key_at(_current_constraints, div(_k, 3)) + "]") in alphabet_subset),
              tag="rows-done-and-partial-row")
