"""Contracts for selfies/utils/smiles_utils.py (bond/atom readers and writers, ring-bond construction)."""
from pyvc.api import *

FIELD_TYPES = {
    # Atom / DirectedBond / Attribution fields (heap typing assumption, checked at every write in verified functions)
    "index": "int|None", "element": "str", "is_aromatic": "bool", "isotope": "int|None", "chirality": "str|None",
    "h_count": "int|None", "charge": "int", "src": "int", "dst": "int", "order": "num", "stereo": "str|None",
    "ring_bond": "bool", "token": "str",
    "bond_idx": "int|None", "start_idx": "int", "end_idx": "int", "token_type": "str",
}


@contract("selfies/utils/smiles_utils.py::smiles_to_bond", props=["C02", "C03", "C04", "C09"])
def smiles_to_bond(bond_char: 'str|None'):
    # OpenSMILES bond symbols: '-' '/' '\\' single, ':' aromatic (1.5), '=' double, '#' triple; no symbol = single
    ensures(result[0] == (2 if bond_char == "=" else 3 if bond_char == "#" else 1.5 if bond_char == ":" else 1),
            tag="C03:bond-order-of-symbol")
    ensures(result[1] == (bond_char if (bond_char == "/" or bond_char == "\\") else None), tag="C04:stereo-of-symbol")
    ensures(typed(result, 'tuple[num,str|None]') and implies(bond_char != ":", typed(result[0], 'int')),
            tag="C03:bond-order-type")


@contract("selfies/utils/smiles_utils.py::bond_to_smiles", props=["C01", "C03", "C04", "C08", "C09"])
def bond_to_smiles(bond: 'DirectedBond'):
    raises(ValueError, when=not (bond.order == 1 or bond.order == 2 or bond.order == 3))
    ensures(bond.order == 1 or bond.order == 2 or bond.order == 3, tag="C01:order-in-1-2-3")
    ensures(result == ("=" if bond.order == 2 else "#" if bond.order == 3 else
                       (bond.stereo if (bond.stereo == "/" or bond.stereo == "\\") else "")),
            tag="C03,C04:symbol-of-bond")


ORGANIC_DOC = ("B", "C", "N", "O", "S", "P", "F", "Cl", "Br", "I")


@spec
def atom_fields_ok(atom):
    return (typed(atom, 'Atom') and typed(atom.element, 'str') and typed(atom.is_aromatic, 'bool')
            and typed(atom.isotope, 'int|None') and typed(atom.chirality, 'str|None')
            and typed(atom.h_count, 'int|None') and typed(atom.charge, 'int')
            # organic-subset atoms (h_count None = implicit hydrogens) carry no other specification
            and implies(typed(atom.h_count, 'None'),
                        typed(atom.isotope, 'None') and typed(atom.chirality, 'None') and atom.charge == 0))


@spec
def signed(n):
    return ("+" + str(n)) if n >= 0 else ("-" + str(0 - n))


@spec
def atom_text(atom, brackets):
    # the standard spelling of an atom (used for SELFIES symbols and for output SMILES alike)
    return (atom.element if (typed(atom.isotope, 'None') and typed(atom.chirality, 'None')
                             and typed(atom.h_count, 'None') and atom.charge == 0)
            else (("[" if brackets else "")
                  + ("" if typed(atom.isotope, 'None') else str(atom.isotope))
                  + atom.element
                  + ("" if typed(atom.chirality, 'None') else atom.chirality)
                  + (("H" + str(atom.h_count)) if atom.h_count != 0
                     else ("H0" if (typed(atom.isotope, 'None') and typed(atom.chirality, 'None') and atom.charge == 0
                                    and atom.element in ORGANIC_DOC) else ""))
                  + ("" if atom.charge == 0 else signed(atom.charge))
                  + ("]" if brackets else "")))


@contract("selfies/utils/smiles_utils.py::atom_to_smiles", props=["C10", "C03", "C08", "C09"])
def atom_to_smiles(atom: 'Atom', brackets: bool = True):
    requires(atom_fields_ok(atom) and not atom.is_aromatic)
    ensures(typed(result, 'str') and result == atom_text(atom, brackets), tag="C10:standard-atom-spelling")


@contract("selfies/utils/smiles_utils.py::smiles_to_atom", props=["C09", "C10", "C18"])
def smiles_to_atom(atom_symbol: str):
    # assumption: ASCII input of bounded length (Unicode digits / the 4300-digit limit are recorded known findings)
    requires(ascii_str(atom_symbol) and 1 <= len(atom_symbol) and len(atom_symbol) <= 4000)
    returns('None|Atom')
    # total: no exception at all for any non-empty ASCII symbol text
    ensures(typed(result, 'None') or (fresh(result) and typed(result.element, 'str') and typed(result.is_aromatic, 'bool')
                                     and typed(result.isotope, 'int|None') and typed(result.chirality, 'str|None')
                                     and typed(result.h_count, 'int|None') and typed(result.charge, 'int')
                                     and typed(result.index, 'None')), tag="C09:atom-or-none")
    ensures(implies(not typed(result, 'None') and typed(result.h_count, 'None'),
                    typed(result.isotope, 'None') and typed(result.chirality, 'None') and result.charge == 0),
            tag="C10:organic-subset-atoms-carry-no-other-specification")
    ensures(implies(not typed(result, 'None') and typed(result.h_count, 'int'), result.h_count >= 0), tag="C10:h-count-nonnegative")
    ensures(implies(not typed(result, 'None') and atom_symbol.startswith("[") and atom_symbol.endswith("]"),
                    re_fullmatch(SMILES_BRACKETED_ATOM_PATTERN, atom_symbol)), tag="C09:bracket-atoms-match-the-grammar")


@contract("selfies/utils/smiles_utils.py::tokenize_smiles", props=["C09"])
def tokenize_smiles(smiles: str):
    # a generator of SMILESToken objects: every token lies inside the input, tokens follow each other without gaps
    # (a bond character belongs to the token after it), the scan always advances, only SMILESParserError escapes
    requires(ascii_str(smiles))
    raises(SMILESParserError)
    yields_type('SMILESToken')
    yields(typed(item, 'SMILESToken') and fresh(item)
           and 0 <= item.start_idx and item.start_idx < item.end_idx and item.end_idx <= len(smiles)
           and (typed(item.bond_idx, 'None') or item.bond_idx == item.start_idx - 1), tag="C09:token-inside-input")
    invariant("while i < len(smiles)", typed(i, 'int') and 0 <= i and i <= len(smiles), tag="scan-position-in-range")
    variant("while i < len(smiles)", len(smiles) - i)
