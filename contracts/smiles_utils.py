"""Contracts for selfies/utils/smiles_utils.py (bond/atom readers and writers, ring-bond construction)."""
from pyvc.api import *

FIELD_TYPES = {
    # Atom / DirectedBond / Attribution fields (heap typing assumption, checked at every write in verified functions)
    "index": "int|None", "element": "str", "is_aromatic": "bool", "isotope": "int|None", "chirality": "str|None",
    "h_count": "int|None", "charge": "int", "src": "int", "dst": "int", "order": "num", "stereo": "str|None",
    "ring_bond": "bool", "token": "str",
}


@contract("selfies/utils/smiles_utils.py::smiles_to_bond", props=["C02", "C03", "C04", "C09"])
def smiles_to_bond(bond_char: 'str|None'):
    # OpenSMILES bond symbols: '-' '/' '\\' single, ':' aromatic (1.5), '=' double, '#' triple; no symbol = single
    ensures(result[0] == (2 if bond_char == "=" else 3 if bond_char == "#" else 1.5 if bond_char == ":" else 1),
            tag="C03:bond-order-of-symbol")
    ensures(result[1] == (bond_char if (bond_char == "/" or bond_char == "\\") else None), tag="C04:stereo-of-symbol")


@contract("selfies/utils/smiles_utils.py::bond_to_smiles", props=["C01", "C03", "C04", "C08", "C09"])
def bond_to_smiles(bond: 'DirectedBond'):
    raises(ValueError, when=not (bond.order == 1 or bond.order == 2 or bond.order == 3))
    ensures(bond.order == 1 or bond.order == 2 or bond.order == 3, tag="C01:order-in-1-2-3")
    ensures(result == ("=" if bond.order == 2 else "#" if bond.order == 3 else
                       (bond.stereo if (bond.stereo == "/" or bond.stereo == "\\") else "")),
            tag="C03,C04:symbol-of-bond")
