"""ATTEMPTED, NOT PART OF ANY CHECK: contract and loop invariants for selfies/decoder.py::_derive_mol_from_symbols.

The verifier generates 6575 obligations over 81 paths for it (path conditions of ~900 facts each, 8 minutes of VC
generation); discharging them is out of reach of the solver budget of this project (DESIGN 13.5).  The file is kept as
the statement of what would have to be proved; copy it into /verif/contracts/ to run `./check --ledger --only _derive`.
"""
from pyvc.api import *


@spec
def rings_sep(mol, rings):
    return (typed(rings, 'list') and rings != mol._atoms and rings != mol._adj_list and rings != mol._bond_counts
            and rings != mol._ring_bond_flags and rings != mol._roots
            and all(rings != mol._adj_list[i] for i in range(len(mol._atoms))))


@spec
def state_ok(mol, state, prev_atom, init_state):
    # meaning of the derivation state X_i: i bond orders are still available on the previously derived atom
    return (typed(state, 'None')
            or (typed(state, 'int') and state == 0 and init_state == 0 and typed(prev_atom, 'None'))
            or (typed(state, 'int') and state >= 1 and in_mol(mol, prev_atom)
                and state <= capH(prev_atom) - mol._bond_counts[prev_atom.index]))


@contract("selfies/decoder.py::_derive_mol_from_symbols", props=["C01", "C02", "C08"])
def _derive_mol_from_symbols(symbol_iter: 'iter[tuple[int,str]]', mol: 'MolecularGraph', selfies: str,
                             max_derive: 'float|int', init_state: int, root_atom: 'Atom|None', rings: list,
                             attribute_stack: 'None', attribution_index: int):
    # scope: attribution off, ASCII symbols of bounded length (see process_atom_symbol), recursion depth not modelled
    requires(typed(max_derive, 'int') == (not typed(max_derive, 'float')) and implies(typed(max_derive, 'int'), max_derive >= 1))
    requires(implies(typed(max_derive, 'float'), max_derive == inf()))
    requires(all(ascii_str(iter_item(symbol_iter, j)[1]) and len(iter_item(symbol_iter, j)[1]) <= 4000
                 for j in range(iter_len(symbol_iter))))
    requires(table_ok(_current_constraints) and atom_cache_ok() and _PROCESS_ATOM_CACHE != _current_constraints)
    requires(_current_constraints != mol._bond_dict and _current_constraints != mol._delocal_subgraph
             and _PROCESS_ATOM_CACHE != mol._bond_dict and _PROCESS_ATOM_CACHE != mol._delocal_subgraph)
    requires(wf(mol) and wf_basic(mol) and atoms_ok(mol) and val_ok(mol) and bonds_ok(mol) and adj_ok(mol))
    requires(typed(mol._attributable, 'bool') and not mol._attributable)
    requires(rings_sep(mol, rings) and all(ring_ok(mol, rings[j]) for j in range(len(rings))))
    requires(init_state >= 0 and implies(init_state == 0, typed(root_atom, 'None'))
             and implies(init_state >= 1, in_mol(mol, root_atom)
                         and init_state <= capH(root_atom) - mol._bond_counts[root_atom.index]))
    opaque("bonds_ok", "adj_ok")
    modifies(symbol_iter, rings, _PROCESS_ATOM_CACHE, mol._atoms, mol._adj_list, mol._bond_counts, mol._ring_bond_flags,
             mol._roots, mol._bond_dict, mol._delocal_subgraph,
             each(mol._adj_list[i] for i in range(len(mol._atoms))))
    raises(DecoderError)
    decreases(iter_len(symbol_iter) - iter_pos(symbol_iter))
    ensures(typed(result, 'int') and result >= 0, tag="C08:returns-count")
    ensures(wf(mol) and wf_basic(mol) and atoms_ok(mol) and bonds_ok(mol) and adj_ok(mol),
            tag="C01:derivation-keeps-graph-well-formed")
    ensures(val_ok(mol), tag="C01:derivation-respects-valence")
    ensures(len(mol._atoms) >= old(len(mol._atoms))
            and all(mol._atoms[i] == old(mol._atoms[i]) for i in range(old(len(mol._atoms)))),
            tag="C01,C02:atoms-only-appended")
    ensures(all(implies(typed(root_atom, 'None') or i != root_atom.index, mol._bond_counts[i] == old(mol._bond_counts[i]))
                for i in range(old(len(mol._atoms)))), tag="C01:old-atoms-untouched")
    ensures(implies(init_state >= 1, mol._bond_counts[root_atom.index] <= old(mol._bond_counts[root_atom.index]) + init_state),
            tag="C01:branch-uses-at-most-its-state")
    ensures(rings_sep(mol, rings) and all(ring_ok(mol, rings[j]) for j in range(len(rings))), tag="C01:ring-requests-valid")
    ensures(table_ok(_current_constraints) and atom_cache_ok() and _current_constraints == old(_current_constraints)
            and same_dict_state(_current_constraints), tag="C08,C11:configuration-untouched")
    ensures(iter_len(symbol_iter) == old(iter_len(symbol_iter)) and iter_pos(symbol_iter) >= old(iter_pos(symbol_iter))
            and iter_pos(symbol_iter) <= iter_len(symbol_iter), tag="C08:iterator-advances")
    invariant("while state is not None and n_derived < max_derive",
              derive_inv(symbol_iter, mol, init_state, root_atom, rings, n_derived, state, prev_atom), tag="frame-and-graph")
    invariant("while state is not None and n_derived < max_derive", state_ok(mol, state, prev_atom, init_state),
              tag="state-bounded-by-free-valence")
    invariant("while state is not None and n_derived < max_derive",
              implies(typed(state, 'int') and state >= 1,
                      prev_atom == root_atom or prev_atom.index >= old(len(mol._atoms))), tag="prev-is-root-or-new")
    invariant("while state is not None and n_derived < max_derive",
              implies(init_state >= 1,
                      mol._bond_counts[root_atom.index]
                      + (state if (typed(state, 'int') and state >= 1 and prev_atom == root_atom) else 0)
                      <= old(mol._bond_counts[root_atom.index]) + init_state), tag="root-budget")
    variant("while state is not None and n_derived < max_derive", iter_len(symbol_iter) - iter_pos(symbol_iter))
    invariant("while n_derived < max_derive",
              derive_inv(symbol_iter, mol, init_state, root_atom, rings, n_derived, state, prev_atom), tag="frame-and-graph-2")
    invariant("while n_derived < max_derive",
              implies(init_state >= 1, mol._bond_counts[root_atom.index] <= old(mol._bond_counts[root_atom.index]) + init_state),
              tag="root-budget-2")
    variant("while n_derived < max_derive", iter_len(symbol_iter) - iter_pos(symbol_iter))


@spec
def derive_inv(symbol_iter, mol, init_state, root_atom, rings, n_derived, state, prev_atom):
    return (typed(n_derived, 'int') and n_derived >= 0
            and wf(mol) and wf_basic(mol) and atoms_ok(mol) and val_ok(mol) and bonds_ok(mol) and adj_ok(mol)
            and mol._atoms == old(mol._atoms) and mol._adj_list == old(mol._adj_list)
            and mol._bond_counts == old(mol._bond_counts) and mol._bond_dict == old(mol._bond_dict)
            and mol._roots == old(mol._roots) and mol._ring_bond_flags == old(mol._ring_bond_flags)
            and mol._delocal_subgraph == old(mol._delocal_subgraph)
            and typed(mol._attributable, 'bool') and not mol._attributable
            and len(mol._atoms) >= old(len(mol._atoms))
            and all(mol._atoms[i] == old(mol._atoms[i]) for i in range(old(len(mol._atoms))))
            and all(implies(typed(root_atom, 'None') or i != root_atom.index,
                            mol._bond_counts[i] == old(mol._bond_counts[i])) for i in range(old(len(mol._atoms))))
            and rings_sep(mol, rings) and all(ring_ok(mol, rings[j]) for j in range(len(rings)))
            and table_ok(_current_constraints) and atom_cache_ok() and _current_constraints == old(_current_constraints)
            and same_dict_state(_current_constraints) and _PROCESS_ATOM_CACHE == old(_PROCESS_ATOM_CACHE)
            and iter_len(symbol_iter) == old(iter_len(symbol_iter)) and iter_exc(symbol_iter) == old(iter_exc(symbol_iter))
            and iter_pos(symbol_iter) >= old(iter_pos(symbol_iter)) and iter_pos(symbol_iter) <= iter_len(symbol_iter)
            and all(iter_item(symbol_iter, j) == old(iter_item(symbol_iter, j)) for j in range(iter_len(symbol_iter))))


