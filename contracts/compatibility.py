"""Contracts for selfies/compatibility.py (translation of pre-v2 symbols)."""
from pyvc.api import *

# the documented renamings of branch and ring symbols (README "compatibility", 21 entries)
UPDATE_DOC = {
    "[Branch1_1]": "[Branch1]", "[Branch1_2]": "[=Branch1]", "[Branch1_3]": "[#Branch1]",
    "[Branch2_1]": "[Branch2]", "[Branch2_2]": "[=Branch2]", "[Branch2_3]": "[#Branch2]",
    "[Branch3_1]": "[Branch3]", "[Branch3_2]": "[=Branch3]", "[Branch3_3]": "[#Branch3]",
    "[Expl=Ring1]": "[=Ring1]", "[Expl=Ring2]": "[=Ring2]", "[Expl=Ring3]": "[=Ring3]",
    "[Expl#Ring1]": "[#Ring1]", "[Expl#Ring2]": "[#Ring2]", "[Expl#Ring3]": "[#Ring3]",
    "[Expl/Ring1]": "[//Ring1]", "[Expl/Ring2]": "[//Ring2]", "[Expl/Ring3]": "[//Ring3]",
    "[Expl\\Ring1]": "[\\\\Ring1]", "[Expl\\Ring2]": "[\\\\Ring2]", "[Expl\\Ring3]": "[\\\\Ring3]",
}


@contract("selfies/compatibility.py::modernize_symbol", props=["C18", "C08"])
def modernize_symbol(symbol: str):
    # domain of the atom parser's contract (ASCII, bounded length); symbols come from split_selfies: '.' or '[...]'
    requires(ascii_str(symbol) and 1 <= len(symbol) and len(symbol) <= 3990)
    ensures(typed(result, 'str'), tag="C18:returns-a-symbol")
    # conservative extension: a symbol that is neither a legacy branch/ring name nor an '...expl]' atom is untouched
    ensures(implies(not (symbol in UPDATE_DOC) and not symbol.endswith("expl]"), result == symbol),
            tag="C18:modern-symbols-untouched")
    ensures(implies(symbol in UPDATE_DOC, result == UPDATE_DOC[symbol]), tag="C18:legacy-branch-and-ring-names")
    # '[<bond><atom>expl]': either returned unchanged (atom text not a non-aromatic SMILES atom) or re-spelled as
    # '[' + the same bond character + the standard atom text + ']' - the bond prefix is never lost
    ensures(implies(not (symbol in UPDATE_DOC) and symbol.endswith("expl]") and result != symbol,
                    result[0] == "["), tag="C18:expl-atoms-stay-bracketed")
    ensures(implies(not (symbol in UPDATE_DOC) and symbol.endswith("expl]") and result != symbol
                    and (symbol[1] == "=" or symbol[1] == "#" or symbol[1] == "/" or symbol[1] == "\\"),
                    result[1] == symbol[1]), tag="C18:expl-atoms-keep-their-bond-prefix")
