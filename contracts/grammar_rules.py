"""Contracts for selfies/grammar_rules.py (state functions and the index code)."""
from pyvc.api import *


@contract("selfies/grammar_rules.py::next_atom_state", props=["C01", "C02", "C08"])
def next_atom_state(bond_order: int, bond_cap: int, state: int):
    returns('tuple[int,int|None]')
    requires(0 <= bond_order <= 3 and bond_cap >= 0 and state >= 0)
    # derivation.rst: mu = min(beta, alpha, i); X_i -> <B'><A> X_{alpha-mu}, terminal when alpha - mu = 0
    ensures(result[0] == (0 if state == 0 else min(bond_order, state, bond_cap)), tag="C02:mu")
    ensures(0 <= result[0] and result[0] <= state and result[0] <= bond_cap and result[0] <= bond_order,
            tag="C01:clip")
    ensures((result[1] is None) == (bond_cap - result[0] == 0), tag="C02:terminal")
    ensures(implies(result[1] is not None, result[1] == bond_cap - result[0] and result[1] >= 1), tag="C01,C02:next")


@contract("selfies/grammar_rules.py::next_branch_state", props=["C01", "C02", "C08"])
def next_branch_state(branch_type: int, state: int):
    returns('tuple[int,int]')
    requires(1 <= branch_type <= 3 and state > 1)
    # derivation.rst: branch init state n = min(i - 1, M), next state j = i - n
    ensures(result[0] == min(state - 1, branch_type), tag="C02:binit")
    ensures(result[1] == state - result[0], tag="C02:bnext")
    ensures(1 <= result[0] and result[1] >= 1 and result[0] + result[1] == state, tag="C01:split")


@contract("selfies/grammar_rules.py::next_ring_state", props=["C01", "C02", "C08"])
def next_ring_state(ring_type: int, state: int):
    returns('tuple[int,int|None]')
    requires(1 <= ring_type <= 3 and state > 0)
    ensures(result[0] == min(ring_type, state), tag="C02:rorder")
    ensures(1 <= result[0] and result[0] <= 3 and result[0] <= state, tag="C01:rclip")
    ensures((result[1] is None) == (state - result[0] == 0), tag="C02:rterminal")
    ensures(implies(result[1] is not None, result[1] == state - result[0] and result[1] >= 1), tag="C01,C02:rnext")


# ------------------------------------------------------------------------------------------------
# C16: index code.  INDEX_DOC is the documented order (docs/source/derivation.rst table, pre-v2 branch
# names modernised as in CHANGELOG v2.0.0; props/C16 re-parses the rst on every run and compares).
# ------------------------------------------------------------------------------------------------
INDEX_DOC = ("[C]", "[Ring1]", "[Ring2]", "[Branch1]", "[=Branch1]", "[#Branch1]", "[Branch2]", "[=Branch2]",
             "[#Branch2]", "[O]", "[N]", "[=N]", "[=C]", "[#C]", "[S]", "[P]")
INDEX_DOC_CODE = {"[C]": 0, "[Ring1]": 1, "[Ring2]": 2, "[Branch1]": 3, "[=Branch1]": 4, "[#Branch1]": 5,
                  "[Branch2]": 6, "[=Branch2]": 7, "[#Branch2]": 8, "[O]": 9, "[N]": 10, "[=N]": 11, "[=C]": 12,
                  "[#C]": 13, "[S]": 14, "[P]": 15}


@spec
def idx(s):
    return INDEX_DOC_CODE[s] if s in INDEX_DOC_CODE else 0


@spec
def pow16(k: int) -> int:
    return 1 if k <= 0 else 16 * pow16(k - 1)


@spec
def digit(n: int, j: int) -> int:
    return mod(div(n, pow16(j)), 16)


@lemma
def pow16_pos(k: int):
    ensures(pow16(k) >= 1)
    decreases(k)
    if k > 0:
        pow16_pos(k - 1)


@lemma
def div_div16(a: int, p: int):
    requires(a >= 0 and p >= 1)
    ensures(div(div(a, p), 16) == div(a, 16 * p))


@contract("selfies/grammar_rules.py::get_index_from_selfies", props=["C16", "C02", "C08"])
def get_index_from_selfies(*symbols: 'tuple<=3'):
    ensures(implies(len(symbols) == 0, result == 0), tag="C16:dec0")
    ensures(implies(len(symbols) == 1, result == idx(symbols[0])), tag="C16:dec1")
    ensures(implies(len(symbols) == 2, result == 16 * idx(symbols[0]) + idx(symbols[1])), tag="C16:dec2")
    ensures(implies(len(symbols) == 3, result == 256 * idx(symbols[0]) + 16 * idx(symbols[1]) + idx(symbols[2])),
            tag="C16:dec3")
    ensures(isinstance(result, int) and 0 <= result and result < 4096, tag="C16:range")


@contract("selfies/grammar_rules.py::get_selfies_from_index", props=["C16", "C03", "C10"])
def get_selfies_from_index(index: int):
    raises(IndexError, when=index < 0)
    ensures(index >= 0, tag="C16:neg-raises")
    ensures(typed(result, 'list') and fresh(result) and len(result) >= 1, tag="C16:nonempty")
    # big-endian digits: result[len-1-j] is the symbol of the j-th little-endian base-16 digit of index
    ensures(all(result[len(result) - 1 - j] == INDEX_DOC[digit(index, j)] for j in range(len(result))),
            tag="C16:digits")
    ensures(div(index, pow16(len(result))) == 0, tag="C16:complete")
    ensures(len(result) == 1 or result[0] != INDEX_DOC[0], tag="C16:shortest")
    ensures(implies(index < 4096, len(result) <= 3), tag="C16:three")
    invariant("while index", typed(symbols, 'list') and fresh(symbols) and isinstance(index, int) and index >= 0
              and isinstance(base, int) and base == 16, tag="types")
    invariant("while index", index == div(old(index), pow16(len(symbols))), tag="quot")
    invariant("while index", all(symbols[j] == INDEX_DOC[digit(old(index), j)] for j in range(len(symbols))),
              tag="digits")
    invariant("while index", old(index) >= 1 and
              (len(symbols) == 0 or index != 0 or digit(old(index), len(symbols) - 1) != 0), tag="top")
    invariant("while index", implies(old(index) < 4096, len(symbols) <= 3 and index < pow16(3 - len(symbols))),
              tag="three")
    variant("while index", index)
    use_lemma("while index", pow16_pos(len(symbols)))
    use_lemma("while index", div_div16(old(index), pow16(len(symbols))))


# documented symbol tables (CHANGELOG v2.0.0 / derivation.rst): branch symbols [<bond>Branch<L>] -> (order, L);
# ring symbols [<bond>Ring<L>] -> (order, L, (None, None)) and two-character stereo ring symbols [<l><r>Ring<L>]
BRANCH_DOC = {'[Branch1]': (1, 1), '[=Branch1]': (2, 1), '[#Branch1]': (3, 1), '[Branch2]': (1, 2), '[=Branch2]': (2, 2), '[#Branch2]': (3, 2), '[Branch3]': (1, 3), '[=Branch3]': (2, 3), '[#Branch3]': (3, 3)}
RING_DOC = {'[Ring1]': (1, 1, (None, None)), '[=Ring1]': (2, 1, (None, None)), '[#Ring1]': (3, 1, (None, None)), '[-/Ring1]': (1, 1, (None, '/')), '[-\\Ring1]': (1, 1, (None, '\\')), '[/-Ring1]': (1, 1, ('/', None)), '[//Ring1]': (1, 1, ('/', '/')), '[/\\Ring1]': (1, 1, ('/', '\\')), '[\\-Ring1]': (1, 1, ('\\', None)), '[\\/Ring1]': (1, 1, ('\\', '/')), '[\\\\Ring1]': (1, 1, ('\\', '\\')), '[Ring2]': (1, 2, (None, None)), '[=Ring2]': (2, 2, (None, None)), '[#Ring2]': (3, 2, (None, None)), '[-/Ring2]': (1, 2, (None, '/')), '[-\\Ring2]': (1, 2, (None, '\\')), '[/-Ring2]': (1, 2, ('/', None)), '[//Ring2]': (1, 2, ('/', '/')), '[/\\Ring2]': (1, 2, ('/', '\\')), '[\\-Ring2]': (1, 2, ('\\', None)), '[\\/Ring2]': (1, 2, ('\\', '/')), '[\\\\Ring2]': (1, 2, ('\\', '\\')), '[Ring3]': (1, 3, (None, None)), '[=Ring3]': (2, 3, (None, None)), '[#Ring3]': (3, 3, (None, None)), '[-/Ring3]': (1, 3, (None, '/')), '[-\\Ring3]': (1, 3, (None, '\\')), '[/-Ring3]': (1, 3, ('/', None)), '[//Ring3]': (1, 3, ('/', '/')), '[/\\Ring3]': (1, 3, ('/', '\\')), '[\\-Ring3]': (1, 3, ('\\', None)), '[\\/Ring3]': (1, 3, ('\\', '/')), '[\\\\Ring3]': (1, 3, ('\\', '\\'))}


@contract("selfies/grammar_rules.py::process_branch_symbol", props=["C02", "C08", "C18"])
def process_branch_symbol(symbol: str):
    returns('None|tuple[int,int]')
    ensures(result == (BRANCH_DOC[symbol] if symbol in BRANCH_DOC else None), tag="C02:branch-symbol-table")


@contract("selfies/grammar_rules.py::process_ring_symbol", props=["C02", "C04", "C08", "C18"])
def process_ring_symbol(symbol: str):
    returns('None|tuple[int,int,tuple[str|None,str|None]]')
    ensures(result == (RING_DOC[symbol] if symbol in RING_DOC else None), tag="C02,C04:ring-symbol-table")


# ------------------------------------------------------------------------------------------------
# atom symbols: parser (table independent) and the memoising front end (capacity check per call)
# ------------------------------------------------------------------------------------------------
GLOBALS = {"selfies/grammar_rules.py::_PROCESS_ATOM_CACHE": "dict"}
FIELD_TYPES = {
    "pk_element": "str", "pk_is_aromatic": "bool", "pk_isotope": "int|None", "pk_chirality": "str|None",
    "pk_h_count": "int|None", "pk_charge": "int|None",
    "pkhas_element": "bool", "pkhas_is_aromatic": "bool", "pkhas_isotope": "bool", "pkhas_chirality": "bool",
    "pkhas_h_count": "bool", "pkhas_charge": "bool",
}


@spec
def atom_factory_ok(p):
    # a functools.partial(Atom, ...) as stored by the library: element and is_aromatic=False always bound; isotope,
    # chirality, h_count, charge bound together (bracket form) or not at all (organic subset form)
    return (typed(p, 'partial') and typed(p.pkhas_element, 'bool') and typed(p.pkhas_is_aromatic, 'bool')
            and p.pkhas_element and p.pkhas_is_aromatic and typed(p.pk_element, 'str')
            and p.pk_is_aromatic == False
            and typed(p.pkhas_isotope, 'bool') and typed(p.pkhas_chirality, 'bool') and typed(p.pkhas_h_count, 'bool')
            and typed(p.pkhas_charge, 'bool')
            and (p.pkhas_isotope == p.pkhas_h_count) and (p.pkhas_chirality == p.pkhas_h_count)
            and (p.pkhas_charge == p.pkhas_h_count)
            and implies(p.pkhas_h_count, typed(p.pk_isotope, 'int|None') and typed(p.pk_chirality, 'str|None')
                        and typed(p.pk_h_count, 'int') and p.pk_h_count >= 0 and typed(p.pk_charge, 'int')))


@spec
def atom_entry_ok(e):
    # what _process_atom_selfies_no_cache returns for an accepted symbol: ((bond order, stereo), atom factory)
    return (typed(e, 'tuple[tuple[int,str|None],partial]') and 1 <= e[0][0] and e[0][0] <= 3
            and atom_factory_ok(e[1]))


@spec
def atom_cache_ok():
    # invariant of the memo table: only accepted symbols are stored, each with a well-formed entry (never None)
    return (typed(_PROCESS_ATOM_CACHE, 'dict')
            and all(implies(k in _PROCESS_ATOM_CACHE, atom_entry_ok(_PROCESS_ATOM_CACHE[k])) for k in anyvalue()))


@contract("selfies/grammar_rules.py::_process_atom_selfies_no_cache", props=["C02", "C08", "C10", "C11", "C19"])
def _process_atom_selfies_no_cache(symbol: str):
    # assumption (stated in the evidence): ASCII symbols of bounded length - non-ASCII decimal digits matched by \d
    # and numerals beyond CPython's 4300-digit conversion limit are recorded known findings, not covered here
    requires(ascii_str(symbol) and len(symbol) <= 4000)
    ensures(typed(result, 'None') or (atom_entry_ok(result) and fresh(result[1])), tag="C02,C08:atom-entry-well-formed")
    ensures(implies(not typed(result, 'None'), re_fullmatch(SELFIES_ATOM_PATTERN, symbol)),
            tag="C02:accepted-symbols-match-the-atom-grammar")
    ensures(implies(not re_fullmatch(SELFIES_ATOM_PATTERN, symbol), typed(result, 'None')),
            tag="C02:symbols-outside-the-atom-grammar-rejected")


@contract("selfies/grammar_rules.py::process_atom_symbol", props=["C01", "C02", "C08", "C10", "C11", "C19"])
def process_atom_symbol(symbol: str):
    opaque("cap_key")
    returns('None|tuple[tuple[int,str|None],Atom]')
    requires(ascii_str(symbol) and len(symbol) <= 4000)
    requires(table_ok(_current_constraints) and atom_cache_ok())
    requires(_PROCESS_ATOM_CACHE != _current_constraints)
    modifies(_PROCESS_ATOM_CACHE)
    ensures(atom_cache_ok(), tag="C11,C19:memo-holds-only-well-formed-entries")
    ensures(typed(result, 'None')
            or (typed(result, 'tuple[tuple[int,str|None],Atom]') and fresh(result[1])
                and 1 <= result[0][0] and result[0][0] <= 3
                and typed(result[1].index, 'None') and result[1].is_aromatic == False
                and typed(result[1].element, 'str') and typed(result[1].charge, 'int')
                and typed(result[1].h_count, 'int|None')), tag="C01,C19:fresh-atom-per-call")
    # the capacity verdict is taken under the table in force AT THIS CALL, never from the memo
    ensures(implies(not typed(result, 'None'), capH(result[1]) >= 0), tag="C01,C02,C11:capacity-checked-per-call")
    ensures(table_ok(_current_constraints) and _current_constraints == old(_current_constraints)
            and same_dict_state(_current_constraints), tag="C08,C11:table-untouched")
