"""Contracts for selfies/grammar_rules.py (state functions and the index code)."""
from pyvc.api import *


@contract("selfies/grammar_rules.py::next_atom_state", props=["C01", "C02", "C08"])
def next_atom_state(bond_order: int, bond_cap: int, state: int):
    requires(0 <= bond_order <= 3 and bond_cap >= 0 and state >= 0)
    # derivation.rst: mu = min(beta, alpha, i); X_i -> <B'><A> X_{alpha-mu}, terminal when alpha - mu = 0
    ensures(result[0] == (0 if state == 0 else min(bond_order, state, bond_cap)), tag="C02:mu")
    ensures(0 <= result[0] and result[0] <= state and result[0] <= bond_cap and result[0] <= bond_order,
            tag="C01:clip")
    ensures((result[1] is None) == (bond_cap - result[0] == 0), tag="C02:terminal")
    ensures(implies(result[1] is not None, result[1] == bond_cap - result[0] and result[1] >= 1), tag="C01,C02:next")


@contract("selfies/grammar_rules.py::next_branch_state", props=["C01", "C02", "C08"])
def next_branch_state(branch_type: int, state: int):
    requires(1 <= branch_type <= 3 and state > 1)
    # derivation.rst: branch init state n = min(i - 1, M), next state j = i - n
    ensures(result[0] == min(state - 1, branch_type), tag="C02:binit")
    ensures(result[1] == state - result[0], tag="C02:bnext")
    ensures(1 <= result[0] and result[1] >= 1 and result[0] + result[1] == state, tag="C01:split")


@contract("selfies/grammar_rules.py::next_ring_state", props=["C01", "C02", "C08"])
def next_ring_state(ring_type: int, state: int):
    requires(1 <= ring_type <= 3 and state > 0)
    ensures(result[0] == min(ring_type, state), tag="C02:rorder")
    ensures(1 <= result[0] and result[0] <= 3 and result[0] <= state, tag="C01:rclip")
    ensures((result[1] is None) == (state - result[0] == 0), tag="C02:rterminal")
    ensures(implies(result[1] is not None, result[1] == state - result[0] and result[1] >= 1), tag="C01,C02:rnext")
