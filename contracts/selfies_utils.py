"""Contracts for selfies/utils/selfies_utils.py (tokenisation)."""
from pyvc.api import *
import re

# well formed in the sense of C14: bracketed symbols with no bracket or dot inside, single dots only after a symbol
WF_SELFIES = re.compile(r"(?:\[[^\[\].]*\]\.?)*")


@contract("selfies/utils/selfies_utils.py::split_selfies", props=["C14", "C13", "C08"])
def split_selfies(selfies: str):
    # a generator: `item` is the value being yielded, yielded_concat()/yielded_count() the ghost output so far
    raises(ValueError)          # hanging '[' (converted to DecoderError by the decoder's token generator)
    yields_type('str')
    yields(typed(item, 'str') and (item == "." or (len(item) >= 2 and item.endswith("]"))),
           tag="C14:each-item-is-a-dot-or-ends-with-a-closing-bracket")
    yields(item == "." or item[1:len(item) - 1].find("]") == -1, tag="C14:symbol-runs-to-the-first-closing-bracket")
    yields(len(item) <= len(selfies) and implies(ascii_str(selfies), ascii_str(item)), tag="C14:items-are-pieces-of-the-input")
    ensures(implies(selfies.find("[") == -1, yielded_count() == 0), tag="C14:no-bracket-no-symbols")
    # for every str (well formed or not) on which it does not raise: the items concatenate to the input from its first '['
    ensures(implies(selfies.find("[") >= 0, yielded_concat() == selfies[selfies.find("["):]),
            tag="C14:items-concatenate-to-the-input")
    invariant("while 0 <= left_idx < len(selfies)",
              typed(left_idx, 'int') and left_idx >= -1 and left_idx <= len(selfies)
              and implies(selfies.find("[") == -1, left_idx == -1 and yielded_count() == 0)
              and implies(selfies.find("[") >= 0, left_idx >= selfies.find("[")
                          and yielded_concat() == selfies[selfies.find("["):left_idx]), tag="output-is-the-scanned-prefix")
    variant("while 0 <= left_idx < len(selfies)", len(selfies) - left_idx)


@contract("selfies/utils/selfies_utils.py::len_selfies", props=["C14", "C13"])
def len_selfies(selfies: str):
    # total on every str; the mechanism the statement names (count('[') + count('.')), and the cases in which the
    # bracket scanner of split_selfies is proved to yield nothing / something (its clauses no-bracket-no-symbols and
    # items-concatenate-to-the-input) get the matching verdict here.  Equality with the NUMBER of yielded items on every
    # well-formed string needs induction over the string and stays with the bounded run (C14:len).
    ensures(isinstance(result, int), tag="C14:len-is-an-int")
    ensures(implies(re_fullmatch(WF_SELFIES, selfies), 0 <= result and result <= 2 * len(selfies)), tag="C14:len-is-a-count")
    # judged on the strings the statement quantifies over only (a count that differs on malformed strings is no alarm)
    ensures(implies(re_fullmatch(WF_SELFIES, selfies), result == selfies.count("[") + selfies.count(".")),
            tag="C14:len-counts-opening-brackets-and-dots")
    ensures(implies(re_fullmatch(WF_SELFIES, selfies), iff(result == 0, selfies == "")), tag="C14:len-zero-iff-empty")
    ensures(implies(re_fullmatch(WF_SELFIES, selfies) and selfies.find("[") >= 0, result >= 1),
            tag="C14:len-positive-when-split-yields")
