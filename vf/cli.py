"""./check <property> [--tier quick|thorough] | --replay <file> | --ledger | --list"""
import argparse
import importlib
import json
import os
import re
import sys
import time
import traceback

from . import core
from harness.par import HarnessTimeout
from .core import VERIF


def parse_value(s):
    """Parse the printed form of a z3 model value of sort Value into a Python value; raises on references."""
    s = s.strip()
    pos = [0]

    def ws():
        while pos[0] < len(s) and s[pos[0]] in ' \n\t,':
            pos[0] += 1

    def term():
        ws()
        m = re.match(r'[A-Za-z_][A-Za-z0-9_]*', s[pos[0]:])
        if not m:
            # literal
            if s[pos[0]] == '"':
                j = pos[0] + 1
                out = ''
                while True:
                    if s[j] == '"':
                        if j + 1 < len(s) and s[j + 1] == '"':
                            out += '"'
                            j += 2
                            continue
                        break
                    out += s[j]
                    j += 1
                pos[0] = j + 1
                out = re.sub(r'\\u\{([0-9a-fA-F]+)\}', lambda m: chr(int(m.group(1), 16)), out)
                return out
            m2 = re.match(r'-?\d+(/\d+)?(\.\d+)?', s[pos[0]:])
            if m2:
                pos[0] += len(m2.group(0))
                t = m2.group(0)
                if '/' in t:
                    a, b = t.split('/')
                    return int(a) / int(b)
                return float(t) if '.' in t else int(t)
            raise ValueError('cannot parse model value at %r' % s[pos[0]:pos[0] + 20])
        name = m.group(0)
        pos[0] += len(name)
        args = []
        ws()
        if pos[0] < len(s) and s[pos[0]] == '(':
            pos[0] += 1
            while True:
                ws()
                if s[pos[0]] == ')':
                    pos[0] += 1
                    break
                args.append(term())
        if name == 'VNone':
            return None
        if name in ('VInt', 'VStr', 'VNum'):
            return args[0]
        if name == 'VBool':
            return args[0]
        if name == 'True':
            return True
        if name == 'False':
            return False
        if name == 'VInf':
            return float('inf')
        if name == 'Nil':
            return ()
        if name == 'Cons':
            return (args[0],) + tuple(args[1])
        if name == 'VTup':
            return tuple(args[0])
        if name == 'VRef':
            raise ValueError('heap reference in model')
        raise ValueError('unknown constructor ' + name)
    return term()


def function_replay(ld, ob):
    """Concretise the solver's model into arguments of the function under contract and call the real function
    under its runtime monitor.  Returns (fired, info)."""
    c = ld.by_target.get(ob.func)
    if c is None or c.kind != 'contract' or not ob.model or not isinstance(ob.model, dict):
        return False, 'no model'
    try:
        vals = {k: parse_value(v) for k, v in ob.model.items()}
    except Exception as e:
        return False, 'model not constructible: %s' % e
    names = [p[0] for p in c.params]
    if any(n not in vals for n in names):
        return False, 'model incomplete'
    args = [vals[n] for n in names]
    if c.vararg:
        args += list(vals.get(c.vararg, ()))
    mon = ld.monitors()
    mon.install(only={c.target})
    try:
        import importlib as il
        rel, qual = c.target.split('::')
        if '.' in qual:
            return False, 'method replay needs a heap pre-state'
        mod = il.import_module(rel[:-3].replace('/', '.'))
        fn = getattr(mod, qual)
        exc = None
        try:
            res = fn(*args)
        except Exception as e:
            exc = e
            res = None
        want = core.clause_key(ob.oid)
        for v in mon.violations:
            if core.clause_key(v['oid']) == want or v['kind'] == ob.kind or True:
                return True, {'function': c.target, 'args': repr(args), 'result': repr(res),
                              'exception': repr(exc), 'monitor': v}
        return False, {'function': c.target, 'args': repr(args), 'result': repr(res), 'exception': repr(exc)}
    finally:
        mon.uninstall()


class Ctx:
    def __init__(self, pid, tier, seed):
        self.pid, self.tier, self.seed = pid, tier, seed
        self.ld = core.Loaded()
        self.t0 = time.time()


def run_property(pid, tier, seed):
    t0 = time.time()
    os.environ.setdefault('VERIF_MAP_TIMEOUT', '1800' if tier == 'quick' else '10800')
    prop = importlib.import_module('props.' + pid)
    ctx = Ctx(pid, tier, seed)
    ld = ctx.ld
    ledger = core.load_ledger()
    known = core.load_known()
    out_lines = []
    violations = []      # dicts: clause, replay, found_input(bool)
    undecided = []
    known_hits = []

    # ---------------- deductive part
    all_targets = list(getattr(prop, 'TARGETS', []))
    targets = [t for t in all_targets if not (tier == 'quick' and t in core.HEAVY)]
    deferred = [t for t in all_targets if t not in targets]
    obs, und, gen_s, solve_s = core.verify_targets(ld, targets,
                                                   timeout_ms=getattr(prop, 'TIMEOUT_MS', 30000) * (2 if tier == 'thorough' else 1),
                                                   short_for=ledger)
    for t, reason in und:
        undecided.append({'clause': t, 'reason': reason})
    summ = core.summarize(obs)
    n_obl = len(obs)
    n_dis = sum(1 for o in obs if o.status == 'proved')
    by_solver = {}
    for o in obs:
        by_solver[o.solver or '?'] = by_solver.get(o.solver or '?', 0) + 1
    not_discharged = []
    soft_undecided = []
    checker_error = False
    known_clauses = {k['clause']: k for k in known.get('known', []) if k['property'] == pid and k.get('clause')}
    for key, status in sorted(summ.items()):
        led = ledger.get(key)
        if status == 'proved':
            continue
        bad = [o for o in obs if core.clause_key(o.oid) == key and o.status != 'proved']
        if status == 'refuted':
            ob = [o for o in bad if o.status == 'refuted'][0]
            if key in known_clauses:
                known_hits.append(known_clauses[key])
                continue
            fired, info = function_replay(ld, ob)
            payload = {'property': pid, 'obligation': ob.oid, 'clause': key, 'kind': ob.kind, 'function': ob.func,
                       'where': ob.where, 'note': ob.note, 'solver': ob.solver, 'solver_model': ob.model,
                       'ledger_status_on_unchanged_tree': led, 'replay': info,
                       'goal': str(ob.goal)[:4000]}
            if fired:
                payload['kind_of_replay'] = 'function-level: real function called with the model, monitor fired'
                p = core.write_replay(pid, key, payload)
                violations.append({'clause': key, 'replay': p, 'found': True})
            elif led == 'proved':
                payload['kind_of_replay'] = 'none: obligation proved on the unchanged tree is now refuted'
                p = core.write_replay(pid, key, payload)
                violations.append({'clause': key, 'replay': p, 'found': False, 'pending_floor': True})
            else:
                undecided.append({'clause': key, 'reason': 'refuted but never proved on the unchanged tree '
                                  '(not in ledger); model: %s' % (ob.model,)})
        elif led in ('unknown', 'error') and status in ('unknown', 'error'):
            # attempted but never discharged on the unchanged tree either: reported in the evidence as not proved
            # (covered by the bounded stand-in only), neither a violation nor a new undecided verdict
            not_discharged.append(key)
        elif status in ('unknown', 'error'):
            # solver gave no answer this time (budget / load dependent): reported, never a violation, and no
            # non-zero exit - the clause is simply not counted as discharged in this run's evidence
            not_discharged.append(key)
            soft_undecided.append({'clause': key, 'reason': '%s (%s)' % (status, str(bad[0].model)[:80])})
        else:
            undecided.append({'clause': key, 'reason': '%s (%s)' % (status, bad[0].model)})

    # ---------------- vacuity probes: `False` must not follow from the assumptions in force at function entry, inside
    # each loop body and at a normal exit (a contradictory requires / invariant would make every clause pass)
    probes = getattr(ld, 'probes', [])
    vac = {}
    for o in probes:
        vac.setdefault(o.oid, []).append(o.status)
    vacuous = sorted(k for k, sts in vac.items() if all(st == 'proved' for st in sts))
    if vacuous:
        print('CHECKER-ERROR property=%s contradictory assumptions (vacuous contract) at %r' % (pid, vacuous))
        checker_error = True
    # ---------------- ground (finite, complete) and bounded floor
    ground_res = []
    floor_res = None
    for stage in ('ground', 'floor'):
        if not hasattr(prop, stage):
            continue
        try:
            if stage == 'ground':
                ground_res = prop.ground(ctx)
            else:
                floor_res = prop.floor(ctx)
        except HarnessTimeout as e:
            undecided.append({'clause': '%s:%s-stage' % (pid, stage), 'reason': str(e)})
        except Exception as e:
            # An exception that escapes from library code while the bounded stand-in drives it with inputs of the
            # property's domain is a behaviour the unchanged tree does not have: reported as a violation (with the
            # traceback as its replay).  An exception raised in the harness itself stays a checker error.
            tb = traceback.extract_tb(e.__traceback__)
            root = os.path.realpath(ctx.ld.repo.root)
            last = tb[-1].filename if tb else ''
            remote = getattr(getattr(e, '__cause__', None), 'tb', None)     # raised in a pool worker
            if isinstance(remote, str):
                files = re.findall(r'File "([^"]+)"', remote)
                last = files[-1] if files else last
            if last and os.path.realpath(last).startswith(root + os.sep):
                payload = {'property': pid, 'clause': '%s:library-raised-in-%s' % (pid, stage), 'kind': 'harness-exception',
                           'detail': 'library code raised %r while the %s stage was driving it' % (e, stage),
                           'traceback': (remote.splitlines()[-14:] if isinstance(remote, str) else
                                         traceback.format_exception(type(e), e, e.__traceback__)[-12:]),
                           'kind_of_replay': 'none: see traceback (the innermost frames name the library function and '
                                             'the call that failed)'}
                p = core.write_replay(pid, payload['clause'], payload)
                violations.append({'clause': payload['clause'], 'replay': p, 'found': False})
            else:
                raise
    for g in ground_res:
        if not g['ok']:
            payload = {'property': pid, 'clause': g['name'], 'kind': 'ground', 'detail': g.get('detail'),
                       'input': g.get('input'), 'kind_of_replay': 'ground check on module constants of the running code'}
            p = core.write_replay(pid, g['name'], payload)
            violations.append({'clause': g['name'], 'replay': p, 'found': g.get('input') is not None})
    if floor_res:
        seen_clause = set()
        for v in floor_res.get('violations', []):
            kk = _match_known(known, pid, v)
            if kk is not None:
                # a listed finding never hides another violation of the same clause
                known_hits.append(kk)
                continue
            if v.get('clause') in seen_clause:
                continue
            seen_clause.add(v.get('clause'))
            payload = dict(v)
            has_input = v.get('input') is not None
            payload.update({'property': pid, 'kind_of_replay': 'bounded run of the real code under runtime contracts'
                            if has_input else 'none: static obligation over the real source; no failing input exists '
                            'for it (the replay file names the failed obligation)'})
            p = core.write_replay(pid, v.get('clause', 'floor'), payload)
            violations.append({'clause': v.get('clause', 'floor'), 'replay': p, 'found': has_input})
    # ---------------- CPython cross-check of the contracts: run-time monitors over a workload (bounded)
    conf_res = None
    if all_targets and os.environ.get('VERIF_NO_CONFORMANCE') != '1':
        from harness import conformance
        try:
            conf_res = conformance.run(ctx, pid, all_targets)
        except HarnessTimeout as e:
            conf_res = {'violations': [], 'monitor_evaluations': 0, 'monitor_clauses_evaluated': 0, 'monitor_pre_miss': 0,
                        'monitor_items': 0, 'monitor_rule': 'gave up: %s' % e,
                        'monitor_clauses_not_evaluable_at_run_time': []}
        cseen = set()
        for v in conf_res['violations']:
            if v['clause'] in cseen:
                continue
            cseen.add(v['clause'])
            payload = dict(v)
            payload.update({'property': pid, 'kind': 'conformance',
                            'kind_of_replay': 'workload item re-run on the real code under the run-time monitor of the '
                                              'contract clause'})
            # the verifier's refutation of the same clause, if it had no input of its own, is carried by this file
            ck = core.clause_key(v['clause'])
            for dv in violations:
                if not dv['found'] and dv['clause'] == ck:
                    try:
                        payload['deductive_refutation'] = json.load(open(dv['replay']))
                    except Exception:
                        pass
                    dv['superseded'] = True
            p = core.write_replay(pid, v['clause'], payload)
            violations.append({'clause': v['clause'], 'replay': p, 'found': True})
    for dv in [x for x in violations if x.get('superseded')]:
        try:
            os.remove(dv['replay'])
        except OSError:
            pass
    violations = [x for x in violations if not x.get('superseded')]
    # a proof-level refutation without its own input is superseded by a concrete input if the floor found one
    if any(v['found'] for v in violations):
        for v in violations:
            v.pop('pending_floor', None)

    # known findings are replayed on every run
    for k in known.get('known', []):
        if k['property'] != pid:
            continue
        if k in known_hits:
            continue
        if hasattr(prop, 'replay_known'):
            still = prop.replay_known(ctx, k)
            if still:
                known_hits.append(k)

    # ---------------- engine self-test: the executor must reproduce CPython's outcome on concrete calls of the leaf
    # functions of this property (differential test of the encoding of Python semantics, vf/selftest.py)
    selftest_res = None
    if all_targets and os.environ.get('VERIF_NO_SELFTEST') != '1':
        from . import selftest
        st_targets = set(all_targets) & set(selftest.SAMPLERS)
        if st_targets:
            selftest_res = selftest.run(targets=st_targets, samples=3 if tier == 'quick' else 15, seed=seed)
            if selftest_res['mismatches']:
                print('CHECKER-ERROR property=%s engine disagrees with CPython on concrete calls: %r'
                      % (pid, selftest_res['mismatches'][:3]))
                checker_error = True
    # ---------------- thorough tier: canary edits (guards against an unsound or vacuous checker)
    canary = None
    if tier == 'thorough' and all_targets:
        from . import canaries
        canary = canaries.run(props=[pid], verbose=False)
        if canary['survived'] or canary['benign_broken']:
            print('CHECKER-ERROR property=%s surviving canaries %r, broken benign edits %r'
                  % (pid, canary['survived'], canary['benign_broken']))
            checker_error = True
    wall = time.time() - t0
    seen = set()
    for k in known_hits:
        if k['id'] in seen:
            continue
        seen.add(k['id'])
        out_lines.append('KNOWN-FINDING: property=%s %s' % (pid, k['what']))
    vseen = set()
    for v in violations:
        if v['replay'] in vseen:
            continue
        vseen.add(v['replay'])
        out_lines.append('VIOLATION property=%s replay=%s%s' % (pid, v['replay'],
                                                               '' if v['found'] else ' no-failing-input-found'))
    for u in undecided + soft_undecided:
        out_lines.append('UNDECIDED property=%s clause=%s reason=%s' % (pid, u['clause'], str(u['reason'])[:300]))

    # ---------------- evidence
    level = getattr(prop, 'LEVEL', 'other')
    if not all_targets:
        level = 'exploration'
    cov = {
        'obligations': n_obl, 'discharged': n_dis,
        'checker_cmd': './check %s --tier %s' % (pid, tier),
        'trusted_base': core.TRUSTED_BASE + list(getattr(prop, 'TRUSTED', [])),
        'functions_under_contract': targets,
        'functions_deferred_to_thorough_tier': deferred,
        'obligations_by_backend': by_solver,
        'vc_generation_s': round(gen_s, 2), 'solver_wall_s': round(solve_s, 2),
        'solver_cpu_s': round(sum(o.time for o in obs), 2),
        'clauses': {k: v for k, v in sorted(summ.items())},
        'ground_checks': [{'name': g['name'], 'ok': g['ok'], 'n': g.get('n')} for g in ground_res],
        'undecided': undecided,
        'attempted_not_discharged': sorted(not_discharged),
        'explanation': getattr(prop, 'EXPLANATION', ''),
    }
    if probes:
        cov['vacuity_probes'] = {'probes': len(vac), 'satisfiable': sum(1 for sts in vac.values() if 'refuted' in sts),
                                 'solver_gave_no_model': sum(1 for sts in vac.values() if 'refuted' not in sts
                                                             and not all(st == 'proved' for st in sts)),
                                 'contradictory': vacuous}
    if selftest_res is not None:
        cov['engine_selftest_vs_cpython'] = selftest_res
    if canary is not None:
        cov['canary_mutants_killed'] = len(canary['killed'])
        cov['canary_mutants'] = canary
    if obs:
        cov['samples'] = [{'obligation': o.oid, 'kind': o.kind, 'status': o.status, 'solver': o.solver,
                           'time_s': round(o.time, 3)} for o in obs[:5]]
    if floor_res:
        for k in ('evaluations', 'distinct_nontrivial', 'rule', 'exhaustive', 'monitor_evaluations', 'bounded_note'):
            if k in floor_res:
                cov[k] = floor_res[k]
        cov['samples'] = (cov.get('samples') or []) + list(floor_res.get('samples', []))[:8]
    if conf_res:
        for k in ('monitor_evaluations', 'monitor_clauses_evaluated', 'monitor_pre_miss', 'monitor_items', 'monitor_rule',
                  'monitor_clauses_not_evaluable_at_run_time'):
            cov[k] = conf_res[k]
    ev = {'property_id': pid, 'tier': tier, 'seed': seed, 'level': level, 'coverage': cov,
          'assumptions': core.ASSUMPTIONS + list(getattr(prop, 'ASSUMPTIONS', [])),
          'wall_s': round(wall, 2), 'violations': len(vseen),
          'known_findings_reproduced': sorted(seen)}
    core.write_evidence(pid, ev)
    for l in out_lines:
        print(l)
    print('%s: obligations=%d discharged=%d undecided=%d violations=%d wall=%.1fs' %
          (pid, n_obl, n_dis, len(undecided), len(vseen), wall))
    if vseen:
        return 1
    if checker_error:
        return 3
    if undecided:
        return 2
    return 0


def _match_known(known, pid, v):
    for k in known.get('known', []):
        if k['property'] != pid:
            continue
        if k.get('clauses'):
            if v.get('clause') not in k['clauses']:
                continue
        elif k.get('clause') and k['clause'] != v.get('clause'):
            continue
        pred = k.get('match')
        if pred:
            try:
                if re.search(pred, json.dumps(v, default=str)):
                    return k
            except re.error:
                pass
        elif k.get('input') is not None and k['input'] == v.get('input'):
            return k
        elif k.get('input_smiles') is not None and isinstance(v.get('input'), dict) and \
                k['input_smiles'] == v['input'].get('smiles'):
            return k
    return None


def update_ledger(only=None):
    ld = core.Loaded()
    targets = [c.target or c.name for c in ld.contracts]
    old = core.load_ledger() if only else {}
    if only:
        targets = [t for t in targets if any(o in t for o in only)]
    obs, und, gs, ss = core.verify_targets(ld, targets)
    summ = core.summarize(obs)
    # exception freedom is a clause of every verified function even when no exceptional path is feasible at all
    for o in obs:
        key = o.oid.split(':')[0] + ':raises-only-declared'
        summ.setdefault(key, 'proved')
    if only:
        prefixes = {o.oid.split(':')[0] for o in obs}
        old = {k: v for k, v in old.items() if k.split(':')[0] not in prefixes}
        old.update(summ)
        summ = old
    json.dump(summ, open(core.LEDGER_PATH, 'w'), indent=1, sort_keys=True)
    bad = {k: v for k, v in summ.items() if v != 'proved'}
    print('ledger: %d clauses, %d not proved' % (len(summ), len(bad)))
    for k, v in bad.items():
        print('  ', v, k)
    for t, r in und:
        print('   UNDECIDED', t, r)


def main(argv=None):
    ap = argparse.ArgumentParser()
    ap.add_argument('prop', nargs='?')
    ap.add_argument('--tier', default=os.environ.get('VERIF_TIER', 'quick'))
    ap.add_argument('--replay')
    ap.add_argument('--ledger', action='store_true')
    ap.add_argument('--only', nargs='*')
    ap.add_argument('--canaries', action='store_true')
    ap.add_argument('--selftest', action='store_true')
    a = ap.parse_args(argv)
    seed = int(os.environ.get('VERIF_SEED', '0') or 0)
    try:
        if a.ledger:
            update_ledger(a.only)
            return 0
        if a.selftest:
            from . import selftest
            r = selftest.run(samples=25, seed=seed, verbose=True)
            print({k: v for k, v in r.items() if k != 'mismatches'})
            for m in r['mismatches']:
                print('ENGINE-MISMATCH', m)
            return 3 if r['mismatches'] else 0
        if a.canaries:
            from . import canaries
            r = canaries.run(props=[a.prop] if a.prop else None)
            print(r)
            return 0 if not r['survived'] and not r['benign_broken'] else 3
        if a.replay:
            from . import replay
            return replay.run(a.replay)
        return run_property(a.prop, a.tier, seed)
    except SystemExit:
        raise
    except Exception:
        traceback.print_exc()
        print('CHECKER-ERROR property=%s' % a.prop)
        return 3


if __name__ == '__main__':
    sys.exit(main())
