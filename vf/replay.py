"""./check --replay <file>: re-import /repo and re-execute the recorded call / input under the recorded clause."""
import importlib
import json

from . import core


def run(path):
    d = json.load(open(path))
    pid = d.get('property')
    print('replay of %s: clause=%s' % (pid, d.get('clause')))
    prop = importlib.import_module('props.' + pid)
    if d.get('kind') == 'conformance':
        from harness import conformance
        ok, detail = conformance.replay(d)
        print('input:', json.dumps(d['input'], default=str)[:500])
        print('detail:', detail)
        print('REPRODUCED' if not ok else 'NOT-REPRODUCED')
        return 1 if not ok else 0
    if 'input' in d and hasattr(prop, 'replay_input'):
        ok, detail = prop.replay_input(d)
        print('input:', json.dumps(d['input'], default=str)[:500])
        print('detail:', detail)
        print('REPRODUCED' if not ok else 'NOT-REPRODUCED')
        return 1 if not ok else 0
    r = d.get('replay')
    if isinstance(r, dict) and 'function' in r:
        ld = core.Loaded()
        mon = ld.monitors()
        mon.install(only={r['function']})
        rel, qual = r['function'].split('::')
        fn = getattr(importlib.import_module(rel[:-3].replace('/', '.')), qual)
        try:
            res = fn(*eval(r['args']))
            print('result:', repr(res))
        except Exception as e:
            print('exception:', repr(e))
        for v in mon.violations:
            print('monitor:', v['oid'], v['detail'])
        print('REPRODUCED' if mon.violations else 'NOT-REPRODUCED')
        return 1 if mon.violations else 0
    print('no concrete input recorded (no-failing-input-found); solver output:')
    print(json.dumps({k: d.get(k) for k in ('obligation', 'where', 'note', 'solver', 'solver_model')}, indent=1))
    return 1
