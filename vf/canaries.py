"""Canary edits: in-memory edits of the extracted functions, each of which must stop a named clause from being
proved (killed = refuted, or at least no longer discharged), and benign edits that must keep every clause proved.
Guards against an unsound or vacuous checker (DESIGN section 6); run by the thorough tier and by `./check --canaries`."""
import sys
import time

from . import core

# (id, property ids, target function, relpath, old text, new text, clause substring expected to stop being proved)
KILL = [
    ('atom-state-drops-state', ['C01', 'C02'], 'selfies/grammar_rules.py::next_atom_state', 'selfies/grammar_rules.py',
     'bond_order = min(bond_order, state, bond_cap)', 'bond_order = min(bond_order, bond_cap)', 'C01:clip'),
    ('branch-state-off-by-one', ['C01', 'C02'], 'selfies/grammar_rules.py::next_branch_state', 'selfies/grammar_rules.py',
     'branch_init_state = min(state - 1, branch_type)', 'branch_init_state = min(state, branch_type)', 'C02:binit'),
    ('ring-state-ignores-state', ['C01', 'C02'], 'selfies/grammar_rules.py::next_ring_state', 'selfies/grammar_rules.py',
     'bond_order = min(ring_type, state)', 'bond_order = ring_type', 'C01:rclip'),
    ('index-wrong-base', ['C16', 'C02'], 'selfies/grammar_rules.py::get_selfies_from_index', 'selfies/grammar_rules.py',
     'index //= base', 'index //= (base - 1)', 'quot'),
    ('index-not-reversed', ['C16'], 'selfies/grammar_rules.py::get_selfies_from_index', 'selfies/grammar_rules.py',
     'return symbols[::-1]', 'return symbols', 'C16:digits'),
    ('index-missing-symbol-not-padded', ['C16', 'C02'], 'selfies/decoder.py::_read_index_from_selfies', 'selfies/decoder.py',
     'index_symbols.append(None)', 'break', 'C16:read'),
    ('capacity-falsy-zero', ['C06', 'C01'], 'selfies/bond_constraints.py::get_bonding_capacity', 'selfies/bond_constraints.py',
     '''    if key in _current_constraints:
        return _current_constraints[key]
    else:
        return _current_constraints["?"]''',
     '''    return _current_constraints.get(key) or _current_constraints["?"]''', 'C06:capacity-lookup'),
    ('set-no-copy', ['C12', 'C11'], 'selfies/bond_constraints.py::set_semantic_constraints', 'selfies/bond_constraints.py',
     '_current_constraints = dict(bond_constraints)', '_current_constraints = bond_constraints',
     'C12:set-installs-private-copy'),
    ('set-write-before-validation', ['C12'], 'selfies/bond_constraints.py::set_semantic_constraints',
     'selfies/bond_constraints.py',
     '''        for key, value in bond_constraints.items():
''', '''        _current_constraints = dict(bond_constraints)
        for key, value in bond_constraints.items():
''', 'C12:atomic'),
    ('set-forgets-cache-clear', ['C11', 'C12'], 'selfies/bond_constraints.py::set_semantic_constraints',
     'selfies/bond_constraints.py', '    get_bonding_capacity.cache_clear()\n', '', 'memos'),
    ('preset-returns-internal-dict', ['C12'], 'selfies/bond_constraints.py::get_preset_constraints',
     'selfies/bond_constraints.py', 'return dict(_PRESET_CONSTRAINTS[name])', 'return _PRESET_CONSTRAINTS[name]',
     'C12:preset-copy-fresh'),
    ('add-bond-forgets-count', ['C01'], 'selfies/mol_graph.py::MolecularGraph.add_bond', 'selfies/mol_graph.py',
     '        self._bond_counts[dst] += order\n\n        if order == 1.5:', '\n        if order == 1.5:', 'add-bond-counts'),
    ('add-atom-forgets-count-slot', ['C01'], 'selfies/mol_graph.py::MolecularGraph.add_atom', 'selfies/mol_graph.py',
     '        self._bond_counts.append(0)\n', '', 'add-atom'),
    ('strict-check-off-by-one', ['C06'], 'selfies/encoder.py::_check_bond_constraints', 'selfies/encoder.py',
     'if bond_count > bond_cap:', 'if bond_count > bond_cap + 1:', 'C06:accepts-only-within-capacity'),
    ('strict-check-ignores-H', ['C06'], 'selfies/mol_graph.py::Atom.bonding_capacity', 'selfies/mol_graph.py',
     '        bond_cap -= 0 if (self.h_count is None) else self.h_count\n', '', 'capacity-minus-H'),
    ('ring-symbol-loses-triple', ['C03'], 'selfies/encoder.py::_bond_to_selfies', 'selfies/encoder.py',
     '''    if not show_stereo and (bond.order == 1):
        return ""''', '''    if not show_stereo and (bond.order != 2):
        return ""''', 'bond-prefix'),
    ('ring-stereo-same-mark-dropped', ['C04'], 'selfies/encoder.py::_ring_bonds_to_selfies', 'selfies/encoder.py',
     'all(b.stereo is None for b in (lbond, rbond))', '(lbond.stereo == rbond.stereo)', 'ring-stereo-both-ends'),
    ('atom-spelling-drops-H0', ['C10'], 'selfies/utils/smiles_utils.py::atom_to_smiles', 'selfies/utils/smiles_utils.py',
     'builder.append("H0")', 'pass', 'C10:standard-atom-spelling'),
    ('modernize-skips-legacy-table', ['C18'], 'selfies/compatibility.py::modernize_symbol', 'selfies/compatibility.py',
     'return _SYMBOL_UPDATE_TABLE[symbol]', 'return symbol', 'C18:legacy-branch-and-ring-names'),
    ('modernize-bond-prefix-moved', ['C18'], 'selfies/compatibility.py::modernize_symbol', 'selfies/compatibility.py',
     'symbol = "[{}{}]".format(bond_char, atom_symbol)', 'symbol = "[{}{}]".format(atom_symbol, bond_char)',
     'C18:expl-atoms-keep-their-bond-prefix'),
    ('modernize-touches-modern-symbols', ['C18'], 'selfies/compatibility.py::modernize_symbol', 'selfies/compatibility.py',
     'if symbol[-5:] == "expl]":', 'if symbol[-1:] == "]":', 'C18:modern-symbols-untouched'),
    ('atom-cache-stores-none', ['C08', 'C11'], 'selfies/grammar_rules.py::process_atom_symbol', 'selfies/grammar_rules.py',
     '''        if output is None:
            return None
        _PROCESS_ATOM_CACHE[symbol] = output''', '''        _PROCESS_ATOM_CACHE[symbol] = output
        if output is None:
            return None''', 'memo-holds-only-well-formed-entries'),
    ('atom-capacity-check-dropped', ['C01', 'C02'], 'selfies/grammar_rules.py::process_atom_symbol',
     'selfies/grammar_rules.py', '''    if atom.bonding_capacity < 0:
        return None  # too many Hs (e.g. [CH9]
''', '', 'capacity-checked-per-call'),
    ('alphabet-drops-boundary-prefix', ['C07'], 'selfies/bond_constraints.py::get_semantic_robust_alphabet',
     'selfies/bond_constraints.py', 'if (m > c) or (a == "?"):', 'if (m >= c) or (a == "?"):', 'rows-done'),
    ('tokenizer-does-not-advance', ['C09'], 'selfies/utils/smiles_utils.py::tokenize_smiles',
     'selfies/utils/smiles_utils.py', '        yield token\n        i = token.end_idx', '        yield token\n        i = token.start_idx',
     'variant'),
    ('tokenizer-ring-number-overruns', ['C09'], 'selfies/utils/smiles_utils.py::tokenize_smiles',
     'selfies/utils/smiles_utils.py', 'if not (rnum.isnumeric() and len(rnum) == 2):', 'if not rnum.isnumeric():',
     'token-inside-input'),
    ('nop-not-filtered', ['C13'], 'selfies/decoder.py::_tokenize_selfies', 'selfies/decoder.py',
     '''            if symbol == "[nop]":
                continue
''', '', 'C13:nop-never-reaches-the-derivation'),
    ('split-skips-a-char', ['C14'], 'selfies/utils/selfies_utils.py::split_selfies', 'selfies/utils/selfies_utils.py',
     'left_idx = right_idx + 1', 'left_idx = right_idx + 2', 'output-is-the-scanned-prefix'),
    ('len-counts-closing-brackets', ['C14'], 'selfies/utils/selfies_utils.py::len_selfies', 'selfies/utils/selfies_utils.py',
     'return selfies.count("[") + selfies.count(".")', 'return selfies.count("]") + selfies.count(".")',
     'C14:len-counts-opening-brackets-and-dots'),
    ('len-forgets-dots', ['C14'], 'selfies/utils/selfies_utils.py::len_selfies', 'selfies/utils/selfies_utils.py',
     'return selfies.count("[") + selfies.count(".")', 'return selfies.count("[")',
     'C14:len-counts-opening-brackets-and-dots'),
]

# edits that do not change behaviour: every clause must still be proved (guards against brittle proofs)
BENIGN = [
    ('atom-state-renamed-local', 'selfies/grammar_rules.py::next_atom_state', 'selfies/grammar_rules.py',
     [('bonds_left', 'remaining', 'all')]),
    ('atom-state-min-as-conditional', 'selfies/grammar_rules.py::next_atom_state', 'selfies/grammar_rules.py',
     [('bond_order = min(bond_order, state, bond_cap)',
       'bond_order = min(bond_order, state)\n    bond_order = bond_order if bond_order < bond_cap else bond_cap')]),
    ('capacity-lookup-reordered', 'selfies/bond_constraints.py::get_bonding_capacity', 'selfies/bond_constraints.py',
     [('''    if key in _current_constraints:
        return _current_constraints[key]
    else:
        return _current_constraints["?"]''',
       '''    if key not in _current_constraints:
        return _current_constraints["?"]
    return _current_constraints[key]''')]),
    ('index-renamed-local', 'selfies/grammar_rules.py::get_index_from_selfies', 'selfies/grammar_rules.py',
     [('for i, c in enumerate(reversed(symbols)):', 'for pos, c in enumerate(reversed(symbols)):'),
      ('(len(INDEX_CODE) ** i)', '(len(INDEX_CODE) ** pos)')]),
    ('len-summands-swapped', 'selfies/utils/selfies_utils.py::len_selfies', 'selfies/utils/selfies_utils.py',
     [('return selfies.count("[") + selfies.count(".")', 'n_dots = selfies.count(".")\n    return n_dots + selfies.count("[")')]),
]


def _verify(target, rel, edits, repo_root=None):
    import os
    root = repo_root or core.REPO
    src = open(os.path.join(root, rel)).read()
    for e in edits:
        old, new = e[0], e[1]
        if old not in src:
            return None, 'edit site not found in current source'
        src = src.replace(old, new) if (len(e) > 2 and e[2] == 'all') else src.replace(old, new, 1)
    ld = core.Loaded(overlay={rel: src})
    obs, und, gs, ss = core.verify_targets(ld, [target], timeout_ms=15000)
    return (obs, und), None


def run(props=None, verbose=True):
    """-> dict(killed=[], survived=[], benign_ok=[], benign_broken=[], skipped=[])"""
    out = {'killed': [], 'survived': [], 'benign_ok': [], 'benign_broken': [], 'skipped': []}
    for cid, pids, target, rel, old, new, clause in KILL:
        if props and not (set(props) & set(pids)):
            continue
        res, err = _verify(target, rel, [(old, new)])
        if err:
            out['skipped'].append((cid, err))
            continue
        obs, und = res
        summ = core.summarize(obs)
        hit = [k for k, v in summ.items() if v != 'proved']     # any clause of the function that is no longer proved
        if hit or und:
            out['killed'].append(cid)
        else:
            out['survived'].append(cid)
        if verbose:
            print('canary %-36s %s %s' % (cid, 'KILLED' if (hit or und) else 'SURVIVED',
                                         {k: summ[k] for k in hit} or und), flush=True)
    for cid, target, rel, edits in BENIGN:
        if props and target not in props and not any(True for p in props):
            continue
        res, err = _verify(target, rel, edits)
        if err:
            out['skipped'].append((cid, err))
            continue
        obs, und = res
        summ = core.summarize(obs)
        bad = {k: v for k, v in summ.items() if v == 'refuted'}
        (out['benign_broken'] if (bad or und) else out['benign_ok']).append(cid)
        if verbose:
            print('benign %-36s %s %s' % (cid, 'BROKEN' if (bad or und) else 'ok', bad or und), flush=True)
    return out


if __name__ == '__main__':
    r = run(sys.argv[1:] or None)
    print(r)
    sys.exit(0 if not r['survived'] and not r['benign_broken'] else 3)
