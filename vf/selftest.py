"""Differential test of the symbolic executor against CPython (guards the largest item of the trusted base).

For leaf functions of the library (no callee under contract, no regex matching), concrete arguments are drawn, the REAL
function is called under CPython, and a contract is synthesised that pins the arguments and states the observed outcome
(`requires(x == <value>)`, `ensures(result == <observed>)`, or `raises(<observed exception>)` and `ensures(False)`).
The engine must prove every obligation of that contract from the ast of the same function: it must compute, for these
inputs, exactly what CPython computed.  A refuted or undischarged obligation is an ENGINE-MISMATCH (exit 3, checker
error): the encoding of Python semantics disagrees with CPython on a concrete input, whatever the repository does.
Run by the thorough tier (for the functions of the property) and by `./check --selftest`.
"""
import importlib
import inspect
import os
import random
import tempfile

from . import core
from pyvc.engine import Engine, OutOfSubset
from pyvc.source import SourceError
from pyvc.source import parse_contract_file
from pyvc.solve import discharge

INDEX = ['[C]', '[Ring1]', '[Ring2]', '[Branch1]', '[=Branch1]', '[#Branch1]', '[Branch2]', '[=Branch2]', '[#Branch2]',
         '[O]', '[N]', '[=N]', '[=C]', '[#C]', '[S]', '[P]', '[F]', '[nop]', '', '[Xe]']
BRANCHY = ['[Branch1]', '[=Branch2]', '[#Branch3]', '[Branch4]', '[Ring1]', '[=Ring2]', '[#Ring3]', '[-/Ring1]', '[\\/Ring2]',
           '[//Ring3]', '[/Ring1]', '[=Ring]', '[C]', '[Branch]', '[=Branch1_2]', '[Expl=Ring1]', '', '[', '[#Ring3', '[\\-Ring2]']
BONDCH = ['', None, '-', '=', '#', '/', '\\', ':']


def _atoms(rnd):
    if rnd.random() < 0.25:     # organic-subset atom: implicit hydrogens, nothing else specified
        return {'element': rnd.choice(['C', 'N', 'Cl', 'B', 'S']), 'is_aromatic': False, 'isotope': None,
                'chirality': None, 'h_count': None, 'charge': 0}
    return {'element': rnd.choice(['C', 'N', 'Fe', 'Cl', 'B', 'S']), 'is_aromatic': False,
            'isotope': rnd.choice([None, None, 13, 2, 235]), 'chirality': rnd.choice([None, None, '@', '@@']),
            'h_count': rnd.choice([0, 0, 1, 3, 12]), 'charge': rnd.choice([0, 0, 1, -1, 3, -12])}


def _bond(rnd):
    return {'src': rnd.randint(0, 5), 'dst': rnd.randint(6, 9), 'order': rnd.choice([1, 2, 3, 1.5]),
            'stereo': rnd.choice([None, None, '/', '\\']), 'ring_bond': rnd.random() < 0.5}


# target -> (parameter names, sampler(rnd) -> list of argument values; dict values describe an object's fields)
SAMPLERS = {
    'selfies/grammar_rules.py::next_atom_state': (
        ['bond_order', 'bond_cap', 'state'], lambda r: [r.randint(0, 3), r.randint(0, 8), r.randint(0, 9)], None),
    'selfies/grammar_rules.py::next_branch_state': (
        ['branch_type', 'state'], lambda r: [r.randint(1, 3), r.randint(2, 9)], None),
    'selfies/grammar_rules.py::next_ring_state': (
        ['ring_type', 'state'], lambda r: [r.randint(1, 3), r.randint(1, 9)], None),
    'selfies/grammar_rules.py::get_selfies_from_index': (
        ['index'], lambda r: [r.choice([0, 1, 15, 16, 17, 255, 256, 4095, 4096, -1, -7, r.randint(0, 70000)])], None),
    'selfies/grammar_rules.py::get_index_from_selfies': (
        ['*symbols'], lambda r: [tuple(r.choice(INDEX) for _ in range(r.randint(0, 3)))], None),
    'selfies/grammar_rules.py::process_branch_symbol': (['symbol'], lambda r: [r.choice(BRANCHY)], None),
    'selfies/grammar_rules.py::process_ring_symbol': (['symbol'], lambda r: [r.choice(BRANCHY)], None),
    'selfies/utils/smiles_utils.py::smiles_to_bond': (['bond_char'], lambda r: [r.choice(BONDCH)], None),
    'selfies/bond_constraints.py::get_preset_constraints': (
        ['name'], lambda r: [r.choice(['default', 'octet_rule', 'hypervalent', 'nope', ''])], None),
    'selfies/utils/smiles_utils.py::atom_to_smiles': (
        ['atom', 'brackets'], lambda r: [_atoms(r), r.random() < 0.6], {'atom': 'Atom'}),
    'selfies/utils/smiles_utils.py::bond_to_smiles': (['bond'], lambda r: [_bond(r)], {'bond': 'DirectedBond'}),
    'selfies/encoder.py::_bond_to_selfies': (
        ['bond', 'show_stereo'], lambda r: [_bond(r), r.random() < 0.5], {'bond': 'DirectedBond'}),
    'selfies/utils/selfies_utils.py::split_selfies': (
        ['selfies'], lambda r: [''.join(r.choice(['[C]', '[=N]', '.', '[Branch1]', '[', ']', 'x', '[nop]', '[]', '[C'])
                                        for _ in range(r.randint(0, 5)))], None),
    'selfies/encoder.py::_ring_bonds_to_selfies': (
        ['lbond', 'rbond'], lambda r: [_bond(r), _bond(r)], {'lbond': 'DirectedBond', 'rbond': 'DirectedBond'}),
}


def _mk(cls, fields):
    import selfies.mol_graph as MG
    if cls == 'Atom':
        return MG.Atom(**fields)
    return MG.DirectedBond(**fields)


def _lit(v):
    if isinstance(v, float) and v == int(v):
        return repr(v)
    return repr(v)


def _result_clauses(res):
    """ensures clauses pinning an observed result"""
    if isinstance(res, list):
        out = ["typed(result, 'list') and len(result) == %d" % len(res)]
        out += ['result[%d] == %s' % (i, _lit(x)) for i, x in enumerate(res)]
        return out
    if isinstance(res, dict):
        return ["typed(result, 'dict') and dict_eq(result, %r)" % (res,)]
    if isinstance(res, tuple) and any(isinstance(x, (list, dict)) or hasattr(x, '__dict__') for x in res):
        return None
    if hasattr(res, '__dict__'):
        return None
    return ['result == %s' % _lit(res)]


def synthesise(target, names, objs, args, outcome):
    rel, qual = target.split('::')
    fname = qual.split('.')[-1]
    params, reqs = [], []
    for n, a in zip(names, args):
        if n.startswith('*'):
            params.append("*%s: 'tuple<=%d'" % (n[1:], max(3, len(a))))
            reqs.append('%s == %s' % (n[1:], _lit(a)))
        elif objs and n in objs:
            params.append("%s: '%s'" % (n, objs[n]))
            reqs += ['%s.%s == %s' % (n, k, _lit(v)) for k, v in a.items()]
        else:
            ty = {int: 'int', str: 'str', bool: 'bool', type(None): 'None', float: 'float'}.get(type(a))
            params.append("%s: '%s'" % (n, ty) if ty else n)
            reqs.append('%s == %s' % (n, _lit(a)))
    lines = ['from pyvc.api import *', '', '@contract(%r)' % target, 'def %s(%s):' % (fname, ', '.join(params))]
    lines.append('    requires(%s)' % ' and '.join(reqs or ['True']))
    if outcome[0] == 'exc':
        lines.append('    raises(%s)' % outcome[1])
        lines.append('    ensures(False, tag="returns-although-cpython-raised-%s")' % outcome[1])
    elif outcome[0] == 'gen':
        items = outcome[1]
        if not all(isinstance(x, str) for x in items):
            return None
        lines.append("    yields_type('str')")
        lines.append('    ensures(yielded_count() == %d and yielded_concat() == %r, tag="cpython-yielded")'
                     % (len(items), ''.join(items)))
    if outcome[0] == 'ok':
        cls = _result_clauses(outcome[1])
        if cls is None:
            return None
        for k, c in enumerate(cls):
            lines.append('    ensures(%s, tag="cpython-result-%d")' % (c, k))
    return '\n'.join(lines) + '\n'


def run(targets=None, samples=12, seed=0, verbose=False):
    rnd = random.Random(seed * 31 + 5)
    ld = core.Loaded()
    tmp = tempfile.mkdtemp(prefix='pyvc_selftest_')
    mismatches, n_samples, n_obl, skipped = [], 0, 0, 0
    out_of_subset = set()
    inconclusive = 0
    try:
        for target, (names, sampler, objs) in sorted(SAMPLERS.items()):
            if targets is not None and target not in targets:
                continue
            rel, qual = target.split('::')
            mod = importlib.import_module(rel[:-3].replace('/', '.'))
            fn = getattr(mod, qual)
            fn = getattr(fn, '__wrapped__', fn)
            seen = set()
            for _ in range(samples):
                args = sampler(rnd)
                key = repr(args)
                if key in seen:
                    continue
                seen.add(key)
                call = []
                for n, a in zip(names, args):
                    if n.startswith('*'):
                        call += list(a)
                    elif objs and n in objs:
                        call.append(_mk(objs[n], a))
                    else:
                        call.append(a)
                try:
                    if inspect.isgeneratorfunction(fn):
                        outcome = ('gen', list(fn(*call)))
                    else:
                        outcome = ('ok', fn(*call))
                except AssertionError:
                    skipped += 1
                    continue        # outside the function's own assumptions
                except Exception as e:
                    outcome = ('exc', type(e).__name__)
                src = synthesise(target, names, objs, args, outcome)
                if src is None:
                    skipped += 1
                    continue
                path = os.path.join(tmp, 'c%d.py' % n_samples)
                open(path, 'w').write(src)
                cs, sp, consts = parse_contract_file(path)
                eng = Engine(ld.repo, cs, dict(ld.specs))
                eng.consts = dict(ld.consts)
                eng.field_types = ld.field_types
                eng.globals_decl = ld.globals_decl
                n_samples += 1
                try:
                    obs = eng.verify(target)
                except (OutOfSubset, SourceError) as e:
                    # the function (as it now is) lies outside the engine's subset: nothing to compare; the main run
                    # reports the function as undecided
                    out_of_subset.add(target)
                    continue
                except Exception as e:
                    mismatches.append({'target': target, 'args': key, 'cpython': repr(outcome), 'engine': 'crash: %r' % (e,)})
                    continue
                if not obs:
                    mismatches.append({'target': target, 'args': key, 'cpython': repr(outcome), 'engine': 'no feasible path'})
                    continue
                discharge(obs, timeout_ms=10000, procs=8)
                n_obl += len(obs)
                # a solver that gives no answer within budget (loaded machine) is inconclusive, not a disagreement
                inconclusive += sum(1 for o in obs if o.status in ('unknown', None))
                bad = [o for o in obs if o.status in ('refuted', 'error')]
                if bad:
                    mismatches.append({'target': target, 'args': key, 'cpython': repr(outcome),
                                       'engine': '%s %s %s' % (bad[0].oid, bad[0].status, str(bad[0].model)[:200])})
                if verbose:
                    print(target.split('::')[1], key[:70], outcome, 'MISMATCH' if bad else 'ok')
    finally:
        import shutil
        shutil.rmtree(tmp, ignore_errors=True)
    return {'samples': n_samples, 'obligations': n_obl, 'skipped': skipped, 'mismatches': mismatches,
            'outside_engine_subset': sorted(out_of_subset), 'inconclusive_obligations': inconclusive,
            'functions': sorted(t for t in SAMPLERS if targets is None or t in targets)}
