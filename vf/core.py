"""Framework glue: load contracts, run the deductive part of a property check, ledger, verdicts, evidence."""
import glob
import hashlib
import importlib.util
import json
import os
import re
import sys
import time
import traceback

VERIF = os.path.dirname(os.path.dirname(os.path.abspath(__file__)))
REPO = os.environ.get('VERIF_REPO', '/repo')
if VERIF not in sys.path:
    sys.path.insert(0, VERIF)
if REPO not in sys.path:
    sys.path.insert(0, REPO)

from pyvc.source import Repo, parse_contract_file, SourceError   # noqa: E402
from pyvc.engine import Engine, OutOfSubset                      # noqa: E402
from pyvc.solve import discharge                                 # noqa: E402
from pyvc import monitor as monitor_mod                          # noqa: E402

CONTRACT_DIR = os.path.join(VERIF, 'contracts')
LEDGER_PATH = os.path.join(CONTRACT_DIR, 'LEDGER.json')
KNOWN_PATH = os.path.join(VERIF, 'KNOWN_FINDINGS.json')

ASSUMPTIONS = [
    "int is mathematical (exact for Python); // and % use Python floor semantics (encoded with SMT div/mod and a sign case split)",
    "float occurs only as 1.5/0.5/inf literals and sums with integers; modelled as exact rationals and +inf",
    "str is a sequence of code points (SMT-LIB strings, up to U+2FFFF)",
    "names resolve lexically to the module-level definitions in /repo's source; no monkey-patching or subclassing by callers",
    "module-level tables read from the running module (ELEMENTS, INDEX_ALPHABET, INDEX_CODE, symbol caches, presets) are not mutated after import",
    "heap typing: fields hold values of their declared kinds (checked at every write inside verified functions)",
    "single thread; MemoryError/KeyboardInterrupt/interpreter failures not modelled",
    "dropped by extraction: docstrings, type annotations, decorators (lru_cache/property/dataclass modelled by trusted specs), text of exception messages",
]

TRUSTED_BASE = [
    "z3 5.1.0 (SMT solver, via the z3-solver Python API) and cvc5 1.0.3 (CLI) as back ends",
    "pyvc: the home-built ast->VC symbolic executor in /verif/pyvc (encoding of Python semantics, DESIGN.md section 2)",
    "trusted specifications of builtins: len min max abs range enumerate reversed list dict tuple isinstance int str, "
    "str.find/format/startswith, dict.get/items, list.append/extend/slicing; str.count with a one-character needle: "
    "0 <= count <= len(s) and count == 0 iff s.find(c) == -1, the number itself uninterpreted",
    "CPython's ast module (extraction of the real functions from /repo on every run)",
]


# functions whose verification conditions take minutes of solver time: discharged in the thorough tier only
# (the quick tier still runs their bounded stand-in and every lighter function's obligations)
HEAVY = {
    'selfies/decoder.py::_form_rings_bilocally',
    'selfies/mol_graph.py::MolecularGraph.add_ring_bond',
    'selfies/mol_graph.py::MolecularGraph.update_bond_order',
    'selfies/grammar_rules.py::_process_atom_selfies_no_cache',
    'selfies/utils/smiles_utils.py::smiles_to_atom',     # regex / int() string obligations (cvc5, 10-20 s each)
}


def load_contract_module(path):
    """the contract file as a Python module for the run-time monitors: spec functions become real functions, contract
    bodies are never executed (only `def`s); the source is first given the verifier's meaning of implies / == / old
    (pyvc.monitor.transform_module)"""
    import ast as _ast
    name = 'vcontracts_' + os.path.basename(path)[:-3]
    m = type(os)(name)
    m.__file__ = path
    m.__dict__.update({k: v for k, v in vars(importlib.import_module('pyvc.api')).items() if not k.startswith('_')})
    for k in ('requires', 'ensures', 'raises', 'raises_nothing', 'modifies', 'decreases', 'invariant', 'variant',
              'unroll', 'inline', 'use_lemma', 'ghost', 'pure', 'check', 'returns', 'opaque',
              'modifies_global', 'ensures_on_raise', 'variant', 'each'):
        m.__dict__.setdefault(k, lambda *a, **kw: True)
    m.__dict__.update(monitor_mod.RUNTIME_HELPERS)
    tree = monitor_mod.transform_module(_ast.parse(open(path).read(), filename=path))
    exec(compile(tree, path, 'exec'), m.__dict__)
    return m


class Loaded:
    def __init__(self, repo_root=None, overlay=None):
        self.repo = Repo(repo_root, overlay)
        self.contracts, self.specs, self.consts = [], {}, {}
        self.files = sorted(glob.glob(os.path.join(CONTRACT_DIR, '*.py')))
        self.field_types, self.globals_decl = {}, {}
        for f in self.files:
            cs, sp, consts = parse_contract_file(f)
            self.contracts += cs
            self.specs.update(sp)
            self.consts.update(consts)
            if 'FIELD_TYPES' in consts:
                self.field_types.update(consts['FIELD_TYPES'])
            if 'GLOBALS' in consts:
                self.globals_decl.update(consts['GLOBALS'])
        self.engine = Engine(self.repo, self.contracts, self.specs)
        self.engine.consts = self.consts
        self.engine.field_types = self.field_types
        self.engine.globals_decl = self.globals_decl
        self.by_target = {c.target or c.name: c for c in self.contracts}

    def monitors(self):
        cmods = {f: load_contract_module(f) for f in self.files}
        return monitor_mod.Monitors(self.contracts, cmods, self.globals_decl, self.specs)


def clause_key(oid):
    """Ledger granularity: explicit clauses by tag; implicit exception-freedom per function and kind."""
    m = re.match(r'^(.*?):(noexc:[a-z.\-]+@|raises:)', oid)
    if m:
        return '%s:raises-only-declared' % m.group(1)
    m = re.match(r'^(.*?):(frame|heap-type)[@:]', oid)
    if m:
        return '%s:%s' % (m.group(1), m.group(2))
    m = re.match(r'^(.*?):call:([^:]+):pre:', oid)
    if m:
        return '%s:call:%s:pre' % (m.group(1), m.group(2))
    return oid


def verify_targets(ld, targets, timeout_ms=30000, procs=16, short_for=None):
    """Run the engine on each target; returns (obligations, undecided list of (target, reason))."""
    obs, undecided = [], []
    t0 = time.time()
    ld.engine.probes = []
    for t in targets:
        try:
            o = ld.engine.verify(t)
            if not o:
                undecided.append((t, 'zero-obligations'))
            obs += o
        except OutOfSubset as e:
            undecided.append((t, 'out-of-subset: %s' % e))
        except SourceError as e:
            undecided.append((t, str(e)))
        except KeyError as e:
            undecided.append((t, 'contract-target-missing %s' % e))
    gen_s = time.time() - t0
    t1 = time.time()
    if short_for is not None:
        # clauses the ledger records as never discharged on the unchanged tree get a short budget: re-proving that
        # they are out of reach on every run would only burn time (they are reported as not discharged either way)
        for o in obs:
            if short_for.get(clause_key(o.oid)) in ('unknown', 'error'):
                o.timeout_ms = 2500
    discharge(obs, timeout_ms=timeout_ms, procs=procs)
    ld.probes = list(ld.engine.probes)
    if ld.probes:
        discharge(ld.probes, timeout_ms=3000, procs=procs)
    return obs, undecided, gen_s, time.time() - t1


def load_ledger():
    if os.path.exists(LEDGER_PATH):
        return json.load(open(LEDGER_PATH))
    return {}


def summarize(obs):
    """clause key -> worst status over its path queries"""
    order = {'proved': 0, 'unknown': 1, 'error': 2, 'refuted': 3}
    out = {}
    for o in obs:
        k = clause_key(o.oid)
        cur = out.get(k)
        if cur is None or order[o.status] > order[cur]:
            out[k] = o.status
    return out


def load_known():
    if os.path.exists(KNOWN_PATH):
        return json.load(open(KNOWN_PATH))
    return {'known': [], 'fixed': []}


OUT = os.environ.get('VERIF_OUT', VERIF)


def _jsonable(x):
    if isinstance(x, dict):
        return {str(k): _jsonable(v) for k, v in x.items()}
    if isinstance(x, (list, tuple, set, frozenset)):
        return [_jsonable(v) for v in x]
    if isinstance(x, (str, int, float, bool)) or x is None:
        return x
    return repr(x)


def write_replay(pid, name, payload):
    payload = _jsonable(payload)
    d = os.path.join(OUT, 'replays')
    os.makedirs(d, exist_ok=True)
    h = hashlib.md5(json.dumps(payload, sort_keys=True, default=str).encode()).hexdigest()[:10]
    safe = re.sub(r'[^A-Za-z0-9_.-]+', '_', name)[:80]
    p = os.path.join(d, '%s-%s-%s.json' % (pid, safe, h))
    json.dump(payload, open(p, 'w'), indent=1, default=str)
    return p


def write_evidence(pid, ev):
    ev = _jsonable(ev)
    d = os.path.join(OUT, 'evidence')
    os.makedirs(d, exist_ok=True)
    json.dump(ev, open(os.path.join(d, pid + '.json'), 'w'), indent=1, default=str)
