"""API histories for C11 (purity) and C12 (configuration API): enumerated call sequences on the real library compared
with (a) fresh interpreters set to the same table and (b) a reference model of the configuration state."""
import itertools
import json
import os
import random
import subprocess
import sys
import warnings

PROBES_DEC = ['[C][#C]', '[C][=C][Branch1][C][F][=O]', '[N][=N][#N]', '[S][=S][=S][=S][F]', '[Cl][Cl][Cl]',
              '[CH5][C][C]', '[PH4][C]', '[OH3]', '[NH4][F]', '[C][PH6][C]', '[Si][=Si][=Si][=Si]', '[Fe+2][=C][#C]',
              '[C][I-1][C]', '[O-1][C][C]', '[B-1][=C][=C][=C]', '[C][C][C][Ring1][Ring1][#C]', '[Al][C][C][C][C]',
              '[C+1][=C][=C]', '[N+1][#C][C]', '[Xe][F][F]',
              # multi-symbol indices with a non-zero high digit, plain chains and rings after earlier odd calls
              '[C]' * 24 + '[Ring2][Ring1][Ring1]', '[C][C][C]', '[C][Branch2][Ring1][C]' + '[C]' * 20 + '[O]',
              '[C]' * 40 + '[Ring2][Ring2][Branch1][N]', '[C][C][C][C][Ring1][Ring2]']
PROBES_ENC = ['CC(C)(C)C', 'C[PH4]', 'N(C)(C)(C)C', 'c1ccccc1', 'C[Al](C)C', 'O=S(=O)(=O)=O', '[NH4+]', 'C[I-]C',
              'FC(F)(F)(F)F', 'C[N+](C)(C)(C)C', 'C1CC1C2CC2', 'C%12CC%12O', 'CCCC1', 'N[C@](F)(Cl)C1CC1', 'C[C@]12CCCC2CCC1',
              'F/C=C/C=C\\F', 'C2CCC1CC12']
# inputs the translators reject (malformed, unclosed rings/branches, unknown elements, unkekulizable, invalid symbols):
# a rejected call must leave nothing behind either
REJECTS_ENC = ['C1CCC', 'CC2CC[Xx]', 'C%12CC(', 'C(', 'C)C', 'C1CC2', 'c1cccc1', 'C=#C', 'CC(C', 'C%1', '1CC1', 'C((C))',
               'C[C@@](F)(Cl)(Br)(I)C1', 'c1ccccc1c', '[CH3', 'C..C', '(C)C', 'C1CC1(', 'C/=C', 'C12CC']
REJECTS_DEC = ['[C][', '[Xx][C]', '[C][Branch1', '][C]', '[C][C@@@]', '[CH99]', '[C][=Ring1][Zz]', '[Ring1][', '[C]..[[C]',
               # rejected only AFTER ring bonds were queued / branches opened / atoms attached
               '[C][C][C][Ring1][Ring1][Foo]', '[C][C][C][=Ring1][Ring1][C][', '[C][C][Branch1][Ring1][C][Ring1][Ring1][Zz]',
               '[N][C][C][Ring1][C].[O][Bar]', '[C][C][C][C][Ring2][C][C][Xx]', '[C][C][C][Ring1][Ring1][Foo]']
# accepted but unusual: non-index symbols in index slots, indices cut off by the end of the string, empty branches
ODD_DEC = ['[C][C][Branch1][F][C][C]', '[C][C][C][Ring1]', '[C][C][C][Ring2][Ring1]', '[C][Branch2][Cl][C][C]', '[C][C][Ring1][Br]',
           '[C][Branch1]', '[C][C][C][C][Ring3][O]', '[C][=Branch1][C][epsilon][#C]', '[C][Branch1][C][Ring1][C]',
           '[C][C][C][Ring1][N+1][C]', '[O][Ring1][Ring1][Ring1]']
CUSTOM = [
    {'?': 3, 'C': 6, 'N': 1, 'O': 0, 'P': 7, 'S': 1, 'I-1': 0, 'Si': 2},
    {'?': 8, 'C': 2, 'N': 5, 'O': 3, 'Cl': 3, 'Xe': 2, 'Fe+2': 1, 'Al': 1},
    {'?': 0, 'C': 4, 'H': 1, 'F': 1, 'P': 2},
]
INVALID = [
    {'C': 4}, {'?': 3, 'Xx': 2}, {'?': 3, 'C+': 2}, {'?': 3, 'C': -1}, {'?': 3, 'C': 2.0}, {'?': 3, 'C': '4'},
    {'?': 5, 'C++1': 2}, {'?': 6, '': 1}, {'?': 7, 'C+a': 1}, 'no_such_preset', 42, None, ['?'], {'?': 2, 'c': 3},
    {'?': 1, 'Si': 9, 'N': None}, {'?': 9, 'P': 1, 'S': 1, 'O+0': 2},
]


def fresh_results(tables):
    """Run each table in its own fresh interpreter: {table_json: {'dec': {...}, 'enc': {...}, 'alphabet': [...]}}"""
    repo = os.environ.get('VERIF_REPO', '/repo')
    code = r'''
import sys, json, warnings
sys.path.insert(0, %r)
import selfies as sf
t = json.loads(sys.argv[1])
sf.set_semantic_constraints(t)
def dec(x):
    try:
        return ['ok', sf.decoder(x)]
    except sf.DecoderError:
        return ['DecoderError']
    except Exception as e:
        return ['other', type(e).__name__]
def enc(x, strict):
    try:
        return ['ok', sf.encoder(x, strict=strict)]
    except sf.EncoderError:
        return ['EncoderError']
    except Exception as e:
        return ['other', type(e).__name__]
print(json.dumps({'dec': {p: dec(p) for p in json.loads(sys.argv[2])},
                  'enc': {p: enc(p, False) for p in json.loads(sys.argv[3])},
                  'encs': {p: enc(p, True) for p in json.loads(sys.argv[3])},
                  'alphabet': sorted(sf.get_semantic_robust_alphabet()),
                  'table': sf.get_semantic_constraints(),
                  'presets': {n: sf.get_preset_constraints(n) for n in ('default', 'octet_rule', 'hypervalent')}}))
''' % repo
    out = {}
    procs = []
    for t in tables:
        key = json.dumps(t, sort_keys=True)
        p = subprocess.Popen([sys.executable, '-c', code, json.dumps(t), json.dumps(PROBES_DEC), json.dumps(PROBES_ENC)],
                             stdout=subprocess.PIPE, stderr=subprocess.PIPE, text=True,
                             env=dict(os.environ, PYTHONHASHSEED=str(len(procs) % 3)))
        procs.append((key, p))
    for key, p in procs:
        o, e = p.communicate()
        if p.returncode != 0:
            raise RuntimeError('fresh interpreter failed: ' + e[-500:])
        out[key] = json.loads(o.strip().splitlines()[-1])
    return out


class Model:
    """Reference model of the configuration state (what the statement of C12 prescribes)."""

    def __init__(self, presets):
        self.presets = {k: dict(v) for k, v in presets.items()}
        self.table = dict(self.presets['default'])
        self.alpha_polluted = False   # caller mutated the set returned by get_semantic_robust_alphabet (known finding)

    def set(self, arg):
        if isinstance(arg, str):
            if arg in self.presets:
                self.table = dict(self.presets[arg])
                self.alpha_polluted = False
                return True
            return False
        if isinstance(arg, dict) and valid_table(arg):
            self.table = dict(arg)
            self.alpha_polluted = False
            return True
        return False


ELEMENTS = None


def valid_table(t):
    from spec.derivation import ELEMENTS as EL
    import re
    if '?' not in t:
        return False
    for k, v in t.items():
        if not isinstance(k, str):
            return False
        if k != '?' and not (k in EL or (re.fullmatch(r'([A-Z][a-z]?)[+-][1-9][0-9]*', k) and
                                         re.match(r'[A-Z][a-z]?', k).group(0) in EL)):
            return False
        if not (isinstance(v, int) and v >= 0):
            return False
    return True


# ---- operations: each returns a short description; `st` carries objects handed out by the library
def ops_palette():
    ops = []
    for name in ('default', 'octet_rule', 'hypervalent'):
        ops.append(('set_preset', name))
    for i in range(len(CUSTOM)):
        ops.append(('set_custom', i))
    ops.append(('set_custom_then_mutate_arg', 0))
    ops.append(('set_custom_then_mutate_arg', 1))
    for i in (0, 1, 3, 9, 15):
        ops.append(('set_invalid', i))
    # a table that keeps every entry of the current one and ADDS a key for an atom type served by '?' so far
    ops.append(('set_superdict', 'Xe'))
    ops.append(('set_superdict', 'Al'))
    ops.append(('set_superdict', 'Fe+2'))
    ops.append(('set_superdict', 'Si'))
    ops.append(('set_subdict', 'O'))
    ops.append(('set_subdict', 'N'))
    ops.append(('get_and_mutate', None))
    ops.append(('get_preset_and_mutate', 'default'))
    ops.append(('get_preset_and_mutate', 'octet_rule'))
    ops.append(('alphabet_and_mutate', None))
    ops.append(('decode_probes', None))
    ops.append(('encode_probes', None))
    ops.append(('rejected_calls', 0))
    ops.append(('rejected_calls', 1))
    return ops


def apply_op(op, model, log):
    import selfies as sf
    kind, arg = op
    if kind == 'set_preset':
        sf.set_semantic_constraints(arg)
        model.set(arg)
    elif kind == 'set_custom':
        t = dict(CUSTOM[arg])
        sf.set_semantic_constraints(t)
        model.set(t)
    elif kind == 'set_custom_then_mutate_arg':
        t = dict(CUSTOM[arg])
        sf.set_semantic_constraints(t)
        model.set(dict(t))
        _touch()
        t['C'] = 1
        t['?'] = 11
        t['Zr'] = 0
        del t['N']
    elif kind == 'set_superdict':
        t = sf.get_semantic_constraints()
        if arg not in t:
            _touch()
            for p in PROBES_DEC[10:]:
                try:
                    sf.decoder(p)
                except sf.DecoderError:
                    pass
            t[arg] = (t.get('?', 0) + 2) % 5 + 1
            sf.set_semantic_constraints(t)
            m = dict(model.table)
            m[arg] = t[arg]
            model.set(m)
    elif kind == 'set_subdict':
        t = sf.get_semantic_constraints()
        t.pop(arg, None)
        sf.set_semantic_constraints(t)
        m = dict(model.table)
        m.pop(arg, None)
        model.set(m)
    elif kind == 'set_invalid':
        bad = INVALID[arg]
        bad = dict(bad) if isinstance(bad, dict) else bad
        try:
            sf.set_semantic_constraints(bad)
            log.append(('C12:rejects-invalid', 'set_semantic_constraints(%r) was accepted' % (bad,)))
        except ValueError:
            pass
        except Exception as e:
            log.append(('C12:rejects-invalid', 'set_semantic_constraints(%r) raised %r, not ValueError' % (bad, e)))
    elif kind == 'get_and_mutate':
        t = sf.get_semantic_constraints()
        if t != model.table:
            log.append(('C12:faithful-get', 'get_semantic_constraints() = %r, expected %r' % (t, model.table)))
        _touch()
        t['C'] = 0
        t['?'] = 1
        t.pop('O', None)
        t['Og'] = 3
    elif kind == 'get_preset_and_mutate':
        t = sf.get_preset_constraints(arg)
        if t != model.presets[arg]:
            log.append(('C12:presets-unchanged', 'get_preset_constraints(%r) = %r, expected %r' % (arg, t, model.presets[arg])))
        _touch()
        t['C'] = 0
        t['N'] = 9
        t['?'] = 2
        t.pop('S', None)
    elif kind == 'alphabet_and_mutate':
        a = sf.get_semantic_robust_alphabet()
        _touch()
        a.add('[XYZ]')
        a.discard('[C]')
        a.discard('[=N]')
        model.alpha_polluted = True
    elif kind == 'decode_probes':
        for p in PROBES_DEC[:8]:
            try:
                with warnings.catch_warnings():
                    warnings.simplefilter('ignore')
                    sf.decoder(p, compatible=(len(p) % 2 == 0), attribute=(len(p) % 3 == 0))
            except sf.DecoderError:
                pass
    elif kind == 'rejected_calls':
        for k_, p in enumerate(REJECTS_ENC if arg == 0 else REJECTS_ENC[::-1]):
            for kw in (({}, {'strict': False}, {'attribute': True})[k_ % 3],):
                try:
                    sf.encoder(p, **kw)
                except Exception:
                    pass
        # the LAST call of this step is a rejected one that had already queued a ring bond: whatever it leaves behind
        # is met by the probes that follow
        for k_, p in enumerate(ODD_DEC + REJECTS_DEC):
            kws = ({'attribute': True}, {'compatible': True}, {})
            for kw in (kws if k_ >= len(ODD_DEC) + len(REJECTS_DEC) - 3 else (kws[k_ % 3],)):
                try:
                    with warnings.catch_warnings():
                        warnings.simplefilter('ignore')
                        sf.decoder(p, **kw)
                except Exception:
                    pass
    elif kind == 'encode_probes':
        for p in PROBES_ENC[:6]:
            for strict in (True, False):
                try:
                    sf.encoder(p, strict=strict)
                except sf.EncoderError:
                    pass


def _touch():
    """Fill the library's memo tables before a caller-side mutation, so that stale entries would be observable."""
    import selfies as sf
    try:
        sf.decoder('[C][=N][#C][O][S][P][Si]')
        sf.encoder('CN(C)O', strict=True)
    except Exception:
        pass
    sf.get_semantic_robust_alphabet()


def observe(fresh, model, log, seq):
    """Compare the library's observable behaviour after a history with the fresh interpreter for the model's table."""
    import selfies as sf
    key = json.dumps(model.table, sort_keys=True)
    got_table = sf.get_semantic_constraints()
    if got_table != model.table:
        log.append(('C12:faithful-set-get', 'after %r: get_semantic_constraints() = %r, expected %r'
                    % (seq, got_table, model.table)))
        # C11 is stated relative to the table the library reports: compare with a fresh interpreter set to THAT table
        key = json.dumps(got_table, sort_keys=True)
        if key not in fresh and _CTX.get('lazy', 0) < 6:
            _CTX['lazy'] = _CTX.get('lazy', 0) + 1
            try:
                if valid_table(got_table):
                    fr = fresh_results([got_table])
                    fresh[key] = list(fr.values())[0]
            except Exception:
                pass
    for n in ('default', 'octet_rule', 'hypervalent'):
        if sf.get_preset_constraints(n) != model.presets[n]:
            log.append(('C12:presets-unchanged', 'after %r: preset %r is now %r' % (seq, n, sf.get_preset_constraints(n))))
    if key not in fresh:
        return
    f = fresh[key]
    alpha = sorted(sf.get_semantic_robust_alphabet())
    if alpha != f['alphabet']:
        extra = sorted(set(alpha) - set(f['alphabet']))[:4]
        miss = sorted(set(f['alphabet']) - set(alpha))[:4]
        log.append(('C12:alphabet-private' if not model.alpha_polluted else 'C12:alphabet-private[known-class]',
                    'after %r: robust alphabet differs from a fresh interpreter: unexpected %r, missing %r'
                    % (seq, extra, miss)))
    for p in PROBES_DEC:
        try:
            r = ['ok', sf.decoder(p)]
        except sf.DecoderError:
            r = ['DecoderError']
        except Exception as e:
            r = ['other', type(e).__name__]
        if r != f['dec'][p]:
            log.append(('C11:decoder-pure', 'after %r: decoder(%r) -> %r, fresh interpreter with the same table -> %r'
                        % (seq, p, r, f['dec'][p])))
            break
    for p in PROBES_ENC:
        try:
            r = ['ok', sf.encoder(p, strict=False)]
        except sf.EncoderError:
            r = ['EncoderError']
        except Exception as e:
            r = ['other', type(e).__name__]
        if r != f['enc'][p]:
            log.append(('C11:encoder-pure', 'after %r: encoder(%r, strict=False) -> %r, fresh interpreter -> %r'
                        % (seq, p, r, f['enc'][p])))
            break
        try:
            r = ['ok', sf.encoder(p, strict=True)]
        except sf.EncoderError:
            r = ['EncoderError']
        except Exception as e:
            r = ['other', type(e).__name__]
        if r != f['encs'][p]:
            log.append(('C11:strict-encoder-pure', 'after %r: encoder(%r) -> %r, fresh interpreter with the same table -> %r'
                        % (seq, p, r, f['encs'][p])))
            break


def run_sequences(seqs, fresh, presets):
    import selfies as sf
    out, n = [], 0
    for seq in seqs:
        sf.set_semantic_constraints('default')
        model = Model(presets)
        log = []
        for op in seq:
            try:
                apply_op(op, model, log)
            except Exception as e:
                log.append(('C12:api-total', 'operation %r raised %r' % (op, e)))
            observe(fresh, model, log, seq)
            n += 1
            if [x for x in log if not x[0].endswith('[known-class]')]:
                break
        seen = set()
        for cl, d in log:
            if cl in seen:
                continue
            seen.add(cl)
            out.append({'clause': cl.replace('[known-class]', ''), 'detail': d,
                        'input': {'sequence': [list(o) for o in seq]},
                        'features': {'caller_mutated_returned_alphabet': cl.endswith('[known-class]')}})
        if len([o for o in out if not o['features']['caller_mutated_returned_alphabet']]) > 20:
            break
    sf.set_semantic_constraints('default')
    return n, out


_CTX = {}


def _work(job):
    return run_sequences(job, _CTX['fresh'], _CTX['presets'])


def all_tables():
    import selfies as sf
    return ['default', 'octet_rule', 'hypervalent'] + CUSTOM


def floor(ctx, pid):
    import selfies as sf
    from harness.par import pmap, chunks
    fr = fresh_results(all_tables())
    fresh = {}
    for k, v in fr.items():
        fresh[json.dumps(v['table'], sort_keys=True)] = v
    presets = fr[json.dumps('default')]['presets']
    _CTX['fresh'], _CTX['presets'] = fresh, presets
    ops = ops_palette()
    L = 2
    seqs = []
    for n in range(1, L + 1):
        seqs += list(itertools.product(ops, repeat=n))
    rnd = random.Random(ctx.seed)
    if ctx.tier != 'quick':
        # length 3: a seeded sample (the full cube of the palette grew to 22 000 sequences of ever heavier steps)
        seqs += [tuple(rnd.choice(ops) for _ in range(3)) for _ in range(5000)]
    for _ in range(600 if ctx.tier == 'quick' else 3000):
        seqs.append(tuple(rnd.choice(ops) for _ in range(rnd.choice([3, 4, 6]))))
    rnd.shuffle(seqs)
    res = pmap(_work, chunks(seqs, 32))
    viol = []
    for r in res:
        for b in r[1]:
            if b['clause'].startswith(pid + ':'):
                viol.append(b)
            elif pid == 'C12' and b['clause'].startswith('C11:') and \
                    any(o[0] == 'set_invalid' for o in b['input']['sequence']):
                b = dict(b)
                b['clause'] = 'C12:atomic-rejection'
                b['detail'] = 'translation behaviour changed in a history with a rejected update: ' + b['detail']
                viol.append(b)
    return {'evaluations': sum(r[0] for r in res), 'distinct_nontrivial': len(seqs),
            'rule': 'all API call sequences of length <= %d (thorough: plus 5000 sampled sequences of length 3) over a %d-operation palette (set preset / custom / invalid '
                    'table, caller mutating the dict it passed, get table / preset / alphabet and mutate the result, '
                    'decode and encode probes incl. failing calls and H-rich symbols) plus seeded sequences of length '
                    '3-6; after every step the table, presets, alphabet, %d decoder probes and %d encoder probes are '
                    'compared with a FRESH interpreter (subprocess, varying PYTHONHASHSEED) set to the same table and '
                    'with a reference model of the configuration state; non-trivial = distinct sequences'
                    % (L, len(ops), len(PROBES_DEC), len(PROBES_ENC)),
            'exhaustive': True, 'samples': [[list(o) for o in seqs[0]]], 'violations': viol,
            'bounded_note': 'bounded-exhaustive histories; not counted as proved'}


def replay(d):
    fr = fresh_results(all_tables())
    fresh = {json.dumps(v['table'], sort_keys=True): v for v in fr.values()}
    presets = fr[json.dumps('default')]['presets']
    seq = tuple(tuple(o) for o in d['input']['sequence'])
    n, out = run_sequences([seq], fresh, presets)
    bad = [o for o in out if o['clause'].startswith(d['property'] + ':') or
           (d['property'] == 'C12' and o['clause'].startswith('C11:'))]
    return not bad, repr(bad[:1])
