"""Per-call wall-clock cap for bounded runs: a translator call that does not return is a violation of totality
(C08/C09), not a reason for the check itself to hang.  SIGALRM based (workers are main threads of forked processes)."""
import signal
import threading


class Hang(BaseException):
    pass


def _raise(signum, frame):
    raise Hang()


def call(fn, seconds=30):
    """run fn(); raise Hang if it takes longer than `seconds` (only where SIGALRM is usable, else unguarded)"""
    if threading.current_thread() is not threading.main_thread() or not hasattr(signal, 'SIGALRM'):
        return fn()
    old = signal.signal(signal.SIGALRM, _raise)
    signal.alarm(int(seconds))
    try:
        return fn()
    finally:
        signal.alarm(0)
        signal.signal(signal.SIGALRM, old)


# once one call of a run has hung, the other workers stop early (every further hanging input would cost the full
# cap again); the flag lives in the run's output directory and is removed by the parent when the run starts
def _flag():
    import os
    return os.path.join(os.environ.get('VERIF_OUT', '/verif'), '.hang-seen')


def reset():
    import os
    try:
        os.remove(_flag())
    except OSError:
        pass


def note_hang():
    try:
        open(_flag(), 'w').write('1')
    except OSError:
        pass


def hang_seen():
    import os
    return os.path.exists(_flag())
