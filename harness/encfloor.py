"""Shared bounded runner for the encoder-side properties (C03, C04, C05, C10)."""
import random

SPECIAL = [
    # stereo centres: open rings, close rings, both, several closures in any label order, first in string, implicit H
    'N[C@](C)(F)Cl', 'N[C@@](C)(F)Cl', '[C@](N)(C)(F)Cl', '[C@@H](N)(C)F', 'N[C@H](C)F', 'N[C@@H](C)F',
    '[C@H]1(F)CCCO1', 'F[C@]1(Cl)CCCO1', 'F[C@@]1(Cl)CCCO1', 'C1CC[C@](F)(Cl)O1', 'C1CC[C@@]2(F)OCCC12',
    '[C@]12(F)CCCC1CCO2', '[C@]21(F)CCCC1CCO2', 'C1CC[C@]23OCCC2CC13', '[C@]231CCC(O1)CC(S2)CC3',
    '[C@@]123CCC(O3)CC(S2)CC1', 'C[C@]1(F)CC[C@@](C)(Cl)CC1', 'O[C@H]1CC[C@@H](N)CC1', 'C[C@@]12CCC[C@]1(O)CCC2',
    '[C@H](F)(Cl)Br', 'F[C@](Cl)(Br)I', 'C[S@](=O)CC', 'C[S@@](=O)CC', 'C[P@](=O)(O)CC', '[NH4+].[C@H](F)(Cl)Br',
    'C[C@H]1CCC%10CC1CC%10', 'C[C@H]0CCCCC0',
    # double bond stereo incl. ring closures carrying marks
    'F/C=C/F', 'F/C=C\\F', 'F\\C=C\\F', 'C(/F)=C/F', 'C(\\F)=C/F', 'F/C=C/C=C/C', 'F/C=C/C=C\\C', 'F/C(Cl)=C/Br',
    'F/C=C/1CCCC1', 'F/C=C1/CCCC1', 'F/C=C/1CCCC/1=C/F', 'F/C=C\\1CCCC/1', 'C/1=C/CCCCCC1', 'C1=C/CCCCCC/1',
    'C/C=C/C(/C)=C/C', 'C/C=C(/C)C', 'C/C=C(\\C)C', 'N/C=C/[C@H](F)Cl', 'C/C=C/c1ccccc1', 'c1ccccc1/C=C/C',
    'C/N=C/C', 'C/N=N/C', 'O/N=C/C', 'C\\C=C/1\\CCC1',
    # bracket spellings, charges, isotopes, H counts
    '[N+](C)(C)(C)C', '[N+1](C)(C)(C)C', '[NH4+]', '[NH4+1]', '[O-]C', '[O-1]C', '[O--]', '[O-2]', '[Fe++]', '[Fe+2]',
    '[Fe+3]', '[Fe+++]', '[CH]', '[CH1]', '[CH3]C', '[13CH3]C', '[13C]', '[2H]O[2H]', '[CH4]', '[C]', '[CH0]', '[OH2]',
    '[Na+].[Cl-]', '[Cu+2].[O-]C', '[nH]1cccc1', '[14c]1ccccc1', '[C@H0](F)(Cl)(Br)I', '[235U]', '[U+6]', '[Zr+4]',
    '[013CH4]', '[02H]O', '[NH3+]CC([O-])=O', 'C[N+](=O)[O-]', '[B-](F)(F)(F)F', '[Al+3]', '[S-2]', '[S--]',
    # aromatic systems
    'c1ccccc1', 'c1ccncc1', 'c1cc[nH]c1', 'c1ccoc1', 'c1ccsc1', 'c1ccc2ccccc2c1', 'c1ccc2[nH]ccc2c1', 'n1ccccc1',
    'c1cnc2ccccc2n1', 'O=c1cc[nH]cc1', 'O=c1ccocc1', 'c1cc[n+](C)cc1', 'c1ccn(C)c1', 'C1=CC=CC=C1', 'c1ccccc1-c1ccccc1',
    'c1ccc(cc1)-c1ccccc1', 'c1cc2cccc3ccc4cccc1c4c32', 'c12ccccc1cccc2', 'c1ccc2c(c1)[nH]c1ccccc12', 'c1c[nH]cn1',
    'c1ncc[nH]1', 'c1ccpcc1', 'c1cc[se]c1', 'c1cccc2c1cc1ccccc1c2', 'C1=Cc2ccccc2C1', 'c1ccc2c(c1)Cc1ccccc1-2',
    'o1cccc1C', 'Cc1ccco1', 'c1(C)ccccc1', 'c1(ccccc1)C', 'c1cc(ccc1)C', 'c1ccccc1.c1ccccc1', 'c1cc[cH]cc1', '[cH]1ccccc1',
    'c1cccc1', 'c1cccc1C', 'c1ccccccc1', 'c1ccc1', 'cc', 'c1ccn1', 'n1cccc1', 's1cccc1', 'c1cscc1', 'c1ccc2ccc2c1',
    # rings, branches, labels
    'C1CC1', 'C1CC1C1CC1', 'C12CC1C2', 'C1CCC2CC1C2', 'C%10CC%10', 'C0CC0', 'C1CCCCC1C1CCCCC1', 'C1(CC1)C', 'C(C)(C)(C)C',
    'CC(C)(C)C(C)(C)C', 'C(C(C(C)C)C)C', 'C1CC2CC1CC2', 'C1CC23CC1CC2C3', 'C=1CC=1', 'C=1CC1', 'C1CC=1', 'C#1CCCCCCC#1',
    'N1CC1', 'C1C(F)C1', 'C1CC(F)1', 'C(F)1CC1', 'C1CC(=O)1', 'C-C', 'C-C=C-C', 'C1-C-C-1', 'C(-F)-Cl', 'C.C', 'C.C.C',
    'CC.CC', '[Na+].[Na+].[O-]S([O-])(=O)=O',
    # atoms one below / at / one above their capacity through explicit H, bonds and charge
    '[CH4]', '[CH4]C', '[CH3]C', '[CH3](C)C', '[CH2](C)(C)C', '[CH3](C)(C)C', '[NH3]', '[NH3]C', '[NH4]C', '[NH2](C)C',
    '[OH2]', '[OH2]C', '[OH1]C', '[OH1](C)C', '[FH1]', '[FH1]C', '[SH6]', '[SH6]C', '[SH5]C', '[PH5]', '[PH5]C', '[PH4]C',
    'C(C)(C)(C)(C)C', 'N(C)(C)(C)C', '[N+](C)(C)(C)(C)C', 'O(C)(C)C', '[O+](C)(C)C', '[O+](C)(C)(C)C', '[O-](C)C',
    'F(C)C', 'Cl(C)C', 'C=C(=C)C', 'C#C=C', 'N#C', 'N(=O)=O', 'N(=O)(=O)C', 'S(=O)(=O)(=O)=O', 'S(=O)(=O)(C)(C)C',
    'P(C)(C)(C)(C)(C)C', '[BH4-]', '[BH3-]C', 'B(C)(C)(C)C', '[B-](C)(C)(C)(C)C', '[C-](C)(C)C', '[C-](C)(C)(C)C',
    '[C+](C)(C)C', '[C+](C)(C)(C)C', '[N-](C)C', '[N-](C)(C)C', '[S+](C)(C)(C)(C)(C)C', '[Fe](C)(C)(C)(C)(C)(C)(C)(C)C',
    '[Si](C)(C)(C)(C)(C)(C)(C)(C)C', '[Mg](C)C', '[H]C', '[H][H]', '[H](C)C', '[He]', '[CH2]=[CH2]', '[13CH4]C', '[2H][CH3]',
    # aromatic systems with odd rings, fused / bridged / cage systems
    'c1ccc2cccc2cc1', 'c1cc2cccccc2c1', 'c1ccc2c(c1)-c1cccc3cccc-2c13', 'c1cc2ccc3cccc4ccc(c1)c2c34',
    'c1cc2ccc3ccc4ccc5ccc1c1c2c3c4c51', 'c1ccc2c(c1)ccc1ccccc12', 'c1cc2cc3ccc4cc5ccc6cc1c1c2c3c4c5c61',
    'c12c3c4c5c1c1c6c7c2c2c8c3c3c9c4c4c%10c5c5c1c1c6c6c%11c7c2c2c7c8c3c3c8c9c4c4c9c%10c5c5c1c1c6c6c%11c2c2c7c3c3c8c4c4c9c5c1c1c6c2c3c41',
    'c1cc2c3c(c1)ccc3ccc2', 'c1ccc2c3c1cccc3cc2', 'C1=Cc2cccc3cccc1c23', 'c1cc2cccc3c2c(c1)cc3', 'c1ccc2cc3ccccc3cc2c1',
    'c1ccc2c(c1)c1cccc3c1c2ccc3', 'c1cc2ccc3cccc4ccc(c1)c2c34', 'c1c2ccccc2cc2ccccc12', 'c1ccc-2cccc-2c1',
    'c1ccc2c(c1)-c1ccccc1-2', 'c1ccc2c(c1)-c1ccccc-21', 'c1ccc-2c(c1)-c1ccccc12', 'c1cc-2ccc1-c1ccc-2cc1',
    'c1ccc2c(c1)n1cccc1-2', 'c1ccc(cc1)-c1cccc-1', 'c1cccc2c1-c1ccccc1C2', 'c1ccccc1-c1ccccc1-c1ccccc1',
    'c1cc[n+]2ccccc2c1', 'c1ccn2cccc2c1', 'c1cnc2n1cccc2', 'c1ccc2occc2c1', 'c1ccc2sccc2c1', 'c1ccc2[nH]cnc2c1',
    'c1ccc2ncncc2c1', 'n1c2ccccc2nc2ccccc12', 'c1cc2ccc1CC2', 'c1cc2ccc1CCc1ccc(cc1)CC2',
    # odd aromatic systems linked by an explicit single ring-closure bond (symbol on one digit, the other, or both)
    'c1ccc2c1CCc1cccc1-2', 'c1ccc-2c1CCc1cccc12', 'c1ccc-2c1CCc1cccc1-2', 'c1ccc2c1Cc1cccc1-2', 'c1ccc-2c1Cc1cccc12',
    'c1ccc2c1CCCc1cccc1-2', 'c1ccc-2c1OCc1cccc12', 'c1cccc1-c1cccc1', 'c1ccc2c1CCc1cccc1=2', 'c1ccc=2c1CCc1cccc12',
    'c1ccc2c1CCc1cccc12', 'c1ccc2c1CCc1cccc1:2', 'c1cc2cccc2c1', 'c1cc-2cccc-2c1', 'c1cc2cccc-2c1', 'c1cc-2cccc2c1',
    'c1ccccc1-1', 'c1cc-1', 'c1ccc-1', 'c-1ccc1', 'c1ccccc-1', 'c-1ccccc1', 'c1ccccc=1', 'c=1ccccc1', 'c:1ccccc:1',
    # chirality marks on atoms with two or three hydrogens (meaningless chemically, valid syntactically)
    '[C@H2](F)Cl', '[13C@@H2](F)Cl', '[N@H2+](C)F', 'C[C@H2]F', '[C@H3]F', '[Si@@H2](F)C', 'F[C@@H2]C1CC1', '[C@H2]1CC1',
    # two-digit hydrogen counts and other over-long numeric fields (the SELFIES atom grammar has one H digit)
    '[CH10-2]', '[SiH12]', '[UH10]C', '[CH11]', '[PbH10+2]', '[CH10]', '[ZrH12]C', '[C@H10]', '[13CH10]', '[CH1][CH01]',
    '[CH00]', '[C+01]', '[0C]', '[00C]', '[C-00]',
    # multivalent halogens (allowed by the hypervalent / relaxed table) at the head of a branch, inside chains and rings
    'c1ccc(Cl(=O)(=O)=O)cc1', 'CC(Cl(=O)=O)C', 'C(Br(F)(F)F)C', 'OC(Cl=O)C', 'C1CC(Cl1)C', 'C1CC(Br1)C', 'CC(I(C)C)C',
    'C(Cl(C)C)(Br(C)C)C', 'CCl(C)C', 'C(ClC)C', 'C(BrCC)C', 'C(IC)C', 'C(Cl=O)F', 'FC(Cl(F)F)Br(F)F', 'C(Cl)(Br(=O)=O)C',
    'OCl(=O)(=O)=O', 'C(Br1CCC1)C', 'N(Cl(C)C)C', 'C(=Cl(C)C)C', 'C(#ClC)C',
    # rings in which lone-pair donors (o, s, [nH], substituted n) separate the carbons that need a pi bond, in every
    # rotation: kekulizable only when the remaining carbons pair up
    'o1ccoc1', 'c1ococ1', 'c1occo1', 'o1cocc1', 'c1coco1', 's1ccsc1', '[nH]1cc[nH]c1', 'n1(C)ccn(C)c1', 'o1ccccoc1',
    'o1ccocc1', 'c1cocco1', 'o1ccoc1C', 'c1coc2occc12', 'o1cc2ccoc2c1', 's1cc[nH]c1', 'o1cc[nH]cc1', 'c1c[nH]cco1',
    'o1cccoc1', 'c1ocococ1', 'o1cccc1', 'c1cocc1', 'n1(C)cccc1', '[nH]1ccc2occc12',
    # bracketed aromatic atoms of every aromatic element, plain and labelled (same pi demand as the bare atom)
    'c1cc[p]cc1', 'c1c[p]cc[p]1', 'c1cc[n]cc1', 'c1c[n]cc[n]1', 'c1cc[o]c1', 'c1cc[s]c1', 'c1cc[31p]cc1', 'C[p]1cccc1',
    'c1cc[pH]c1', 'c1cc[p]c2ccccc12', '[p]1ccccc1', 'c1c[p]c[p]c1', 'c1cc[se]c1', 'c1cc[te]c1', 'c1cc[as]cc1', 'c1cc[b]cc1',
    # bracket aromatic atoms without H (isotope labels): same pi demand as the bare atom
    'c1cc[15n]cc1', 'c1c[15n]cc[15n]1', 'c1cc[15n]c1C', '[15n]1ccccc1', 'c1cc[14c]cc1', '[13c]1[13c][13c][13c][13c][13c]1',
    'c1cc[15n]c2ccccc12', 'c1c[15n]c[15n]c1', 'c1cc[15nH]c1', 'C[15n]1cccc1', 'c1cc[17o]c1', 'c1cc[33s]c1', 'c1cc[31p]cc1',
    'c1cc[15n+](C)cc1', 'c1cc[15n+]([O-])cc1', '[15n]1c[15n]c[15n]c1', 'c1c[15n]c2c(c1)cc[15n]2C', 'c1cc[15n]c1',
    'c:1ccccc1', 'C1=CC=CC=C1', 'C:1:C:C:C:C:C1', 'C1:C:C:C:C:C:1', 'c1ccc(-c2ccccc2)cc1', 'c1ccc(cc1)=c1ccccc1',
]


def ring_digit_centres():
    """stereo centres that are NOT first in the string and whose neighbours after the preceding atom (and H) are all
    ring-closure digits: closing + opening, opening + opening, closing + closing, three digits - in every digit order"""
    import itertools
    out = []
    fams = [('N1CC(C[C{c}H]{d})OC2', '12'), ('OC(C[C{c}H]{d})(CC1)NC2', '12'), ('N1CC2CC[C{c}H]{d}', '12'),
            ('N1CCC2(OC[C{c}]{d})SC3', '123'), ('N1CC2CC3(OC[C{c}]{d})SC3', None), ('N1CC(C[C{c}]{d}F)OC2', '12'),
            ('N1CC2CC[C{c}]{d}Cl', '12'), ('FC(C[C{c}]{d})(CC1)(NC2)', '12'), ('C1CC2CC3C[C{c}]{d}', '123'),
            ('OC1CC(C[C{c}H]{d})OC2.F', '12')]
    # the same centres with a closing digit written after a branch on the partner (recorded finding C04/C10 class)
    out += ['F[C@@]12CCCC(O2)1', 'F[C@]12CCCC(O2)1', 'C[C@@]12CCCC(C2)1', 'C(C[C@@]12CCC)C(C2)1C', 'F[C@@]12CCCC1(O2)']
    # a centre that only CLOSES rings and writes its own closing digit(s) after one or two branches
    for c in ('@', '@@'):
        out += [t.replace('{c}', c) for t in (
            'C1CC[C{c}H](F)1', 'C1CCC[C{c}](F)(Cl)1', 'C1CC[C{c}](F)1Cl', 'N1CC[C{c}H](O)1', 'C1CC2CC[C{c}](F)12',
            'C1CC2CC[C{c}](F)21', 'C1CC[C{c}](F)(Cl)1', 'O1CC[C{c}H](CC)1', 'C1CC[C{c}H](F)1.C', 'CC1CC[C{c}](N)(O)1',
            'C1CC2CC[C{c}]1(F)2', 'C1CC2CC[C{c}]2(F)1')]
    for t, digs in fams:
        if digs is None:
            continue
        for perm in itertools.permutations(digs):
            for c in ('@', '@@'):
                out.append(t.replace('{c}', c).replace('{d}', ''.join(perm)))
    return out


def long_chain_cases():
    """ring spans / branch lengths on both sides of every index-width boundary (16, 16^2) and up to the documented
    limit 16^3, in several shapes (the width of the index is decided in one place for rings and one for branches;
    a branch that starts with a bond symbol, a ring bond of order 2, a branch inside a ring)"""
    out = []
    for n in (14, 15, 16, 17, 18, 20, 254, 255, 256, 257, 258, 300, 4094, 4095, 4096):
        out.append('C1' + 'C' * n + '1')          # ring index n - 1
        out.append('C(' + 'C' * n + ')F')         # branch of n symbols
        out.append('S(=C' + 'C' * (n - 1) + ')C')  # branch of n symbols that starts with a bond symbol
        out.append('C=1' + 'C' * n + '1')         # double ring bond
        if n < 1000:
            out.append('N(' + 'C' * (n - 1) + '=O)C')
            out.append('C1' + 'C' * (n - 3) + '(CF)C1')
            out.append('OC1' + 'C' * n + '1N')
    return out


def ring_after_branch(smiles):
    """True if some atom of the SMILES has a ring-closure digit written after a branch (C10 known-finding class)."""
    from spec import smiles_reader as R
    try:
        m = R.read_smiles(smiles)
    except R.SmilesSyntaxError:
        return False
    rc = set()
    for lab, i, j in m.ring_closures:
        rc.add((i, j))
        rc.add((j, i))
    for i in range(len(m.atoms)):
        seen_child = False
        for e in m.neighbors[i]:
            if e[0] != 'atom':
                continue
            j = e[1]
            if (i, j) in rc:
                if seen_child:
                    return True
            elif m.atoms[j].prev == i:
                seen_child = True
    return False


def centre_partner_after_branch(smiles):
    """True if a stereo centre c has two ring bonds and the CLOSING digit of one of them is written (at c itself or at
    the partner) after a branch that contains the closing digit of the other (the decidable input class of the
    recorded C04 finding: the decoder forms the ring bonds in the order their closing digits are written, the
    encoder's chirality fix-up assumes 'rings closed here first, then rings opened here by partner index')"""
    from spec import smiles_reader as R
    try:
        m = R.read_smiles(smiles)
    except R.SmilesSyntaxError:
        return False
    partners = {}
    for lab, i, j in m.ring_closures:
        partners.setdefault(i, set()).add(j)
        partners.setdefault(j, set()).add(i)

    def inside(q, root, top):
        k = q
        while k is not None and k != top:
            if k == root:
                return True
            k = m.atoms[k].prev
        return False
    for c, a in enumerate(m.atoms):
        if a.chirality is None or len(partners.get(c, ())) < 2:
            continue
        closers = {p_: max(c, p_) for p_ in partners[c]}          # ring bond (c, p_) is closed at the later atom
        for p_, z in closers.items():
            other = p_ if z == c else c                            # the digit at z names `other`
            kids = []
            for e in m.neighbors[z]:
                if e[0] != 'atom':
                    continue
                j = e[1]
                if j == other and j in partners.get(z, ()):
                    for q_, z2 in closers.items():
                        if q_ != p_ and z2 != z and any(inside(z2, kid, z) for kid in kids):
                            return True
                elif m.atoms[j].prev == z:
                    kids.append(j)
    return False


BRACKET_RE = r'^(\d*)([A-Za-z][a-z]?)(@{0,2})(H\d?)?((?:\+\d+|-\d+|\++|-+))?$'


def bracket_variants(s, rnd):
    """Equivalent spellings of the bracket atoms of s: [N+] <-> [N+1], [CH] <-> [CH1], [O--] <-> [O-2], ..."""
    import re

    def sub(m):
        body = m.group(1)
        mm = re.match(BRACKET_RE, body)
        if not mm:
            return m.group(0)
        iso, el, chi, h, ch = mm.groups()
        if h:
            n = 1 if h == 'H' else int(h[1:])
            h = rnd.choice(['H' if n == 1 else 'H%d' % n, 'H%d' % n])
        if ch:
            sign = ch[0]
            n = int(ch[1:]) if ch[1:].isdigit() else len(ch)
            forms = ['%s%d' % (sign, n)]
            if n <= 2:
                forms.append(sign * n)
            ch = rnd.choice(forms)
        return '[%s%s%s%s%s]' % (iso, el, chi, h or '', ch or '')
    return re.sub(r'\[([^\]]*)\]', sub, s)


def _work(job):
    import selfies as sf
    from harness import enc
    pid, strings, seed, nresp, table = job
    sf.set_semantic_constraints(table)
    rnd = random.Random(seed)
    from spec import smiles_writer as W
    n, nt, bad = 0, set(), []
    for s in strings:
        todo = [s]
        if nresp:
            try:
                todo += [W.respell_same_order(s, rnd) for _ in range(nresp)]
            except Exception:
                pass
        res = []
        for t in todo:
            r = enc.analyze(t)
            n += 1
            res.append((t, r))
            if r and r[0][0] == 'ok':
                nt.add(hash(r[0][1]))
        if nresp:
            for cl, d in enc.analyze_order_independence(s, rnd, nresp):
                res.append((s, [(cl, d)]))
                n += 1
        # equivalent spellings of the bracket atoms produce the same SELFIES (C10)
        acc = {r[0][0] for t, r in res[:1 + nresp] if r and r[0][0] in ('ok', 'rejected')}
        if pid == 'C10' and '[' in s:
            vs = [s] + [bracket_variants(s, rnd) for _ in range(3)]
            rs = [enc.analyze(v, reencode=False, stereo=False) for v in vs]
            n += len(vs) - 1
            sels = {r[0][1] for r in rs if r and r[0][0] == 'ok'}
            if len(sels) > 1 or len({r[0][0] for r in rs if r}) > 1:
                res.append((s, [('C10:spelling-equivalence', 'equivalent bracket spellings %r give %r'
                                 % (vs, [r[0] for r in rs]))]))
        if len(acc) > 1:
            res.append((s, [('C03:spelling-acceptance', 'same-order spellings %r differ in acceptance'
                             % ([t for t, _ in res[:1 + nresp]],))]))
        for t, r in res:
            for cl, d in r:
                if cl.startswith(pid + ':'):
                    rab = ring_after_branch(t)
                    cpab = centre_partner_after_branch(t) if rab else False
                    # capped per (clause, input class) so that a recorded class can never crowd out a new violation
                    if sum(1 for b in bad if b['clause'] == cl and b['features']['ring_after_branch'] == rab
                           and b['features']['centre_partner_after_branch'] == cpab) >= 3:
                        continue
                    bad.append({'clause': cl, 'detail': d, 'input': {'smiles': t, 'table': table if isinstance(table, str)
                                                                      else 'relaxed'},
                                'features': {'ring_after_branch': rab, 'centre_partner_after_branch': cpab}})
    return n, len(nt), bad


HRICH_SMILES = ['C[PH4]', 'C[SH3]', '[NH4]C', 'C[OH2]C', '[CH5]C', 'C[PH6]', 'C[SH5]', '[BH4]C', 'C[ClH2]', 'C[PH2](C)C',
                'C[SH2]C', '[PH5]', '[SH6]', 'C[NH3]C', '[CH3][CH3]', 'CC', 'C[PH4]C', '[SH4](C)C']
SEQ_TABLES = ['octet_rule', 'default', 'hypervalent', 'octet_rule', 'relaxed', 'default']


def _seq_work(job):
    """One process, tables switched in sequence (C10: 'decoding under K never raises' for all tables K)."""
    import selfies as sf
    from harness import enc
    pid, strings = job
    n, bad = 0, []
    for t in SEQ_TABLES:
        sf.set_semantic_constraints(enc.relaxed_table() if t == 'relaxed' else t)
        for s in strings:
            n += 1
            for cl, d in enc.analyze(s):
                if cl.startswith(pid + ':') and len(bad) < 4:
                    bad.append({'clause': cl, 'detail': 'under table %r after %r: %s' % (t, SEQ_TABLES, d),
                                'input': {'smiles': s, 'table': t, 'sequence': SEQ_TABLES},
                                'features': {'ring_after_branch': ring_after_branch(s)}})
            try:
                sf.encoder(s, strict=False) and sf.decoder(sf.encoder(s, strict=False))
            except Exception:
                pass
    sf.set_semantic_constraints('default')
    return n, 0, bad


def run(ctx, pid, inputs, nresp, rule):
    from harness.par import pmap, chunks
    from harness import enc
    table = enc.relaxed_table()
    jobs = [(pid, ch, ctx.seed + i, nresp, table) for i, ch in enumerate(chunks(inputs, 32))]
    res = pmap(_work, jobs)
    res += pmap(_seq_work, [(pid, HRICH_SMILES), (pid, HRICH_SMILES[::-1])])
    rule += ('; plus explicit-H molecules encoded/decoded in one process under the table sequence %r (stale-memo check)'
             % (SEQ_TABLES,))
    return {'evaluations': sum(r[0] for r in res), 'distinct_nontrivial': sum(r[1] for r in res),
            'rule': rule, 'exhaustive': False, 'samples': inputs[:3] + inputs[-2:],
            'violations': [b for r in res for b in r[2]],
            'bounded_note': 'bounded run of encoder/decoder on the real library judged by the independent reader; '
                            'not counted as proved'}


def replay(d):
    import selfies as sf
    from harness import enc
    i = d['input']
    if i.get('sequence'):
        bad = []
        for t in i['sequence']:
            sf.set_semantic_constraints(enc.relaxed_table() if t == 'relaxed' else t)
            for s in HRICH_SMILES:
                bad += [x for x in enc.analyze(s) if x[0].startswith(d['property'] + ':')]
                try:
                    sf.encoder(s, strict=False) and sf.decoder(sf.encoder(s, strict=False))
                except Exception:
                    pass
        sf.set_semantic_constraints('default')
        return not bad, repr(bad[:1])
    sf.set_semantic_constraints(enc.relaxed_table() if i.get('table') == 'relaxed' else i.get('table', 'default'))
    r = enc.analyze(i['smiles'])
    pid = d['property']
    bad = [x for x in r if x[0].startswith(pid + ':')]
    return not bad, repr(r)
