"""CPython cross-check of the contracts (bounded; never counted as proved).

The functions under contract for a property are wrapped with run-time monitors compiled from the SAME contract files
the verifier reads (pyvc/monitor.py) and the public API is driven through a workload: random and hand-picked SELFIES
strings decoded under several constraint tables, corpus SMILES encoded, configuration histories with valid and invalid
tables, the index code, atom symbols.  Every evaluation of a clause on a real call is counted.  A clause that is
false on a real call is a violation with a concrete input (the API call that led to it); on the unchanged tree it would
mean the contract (or the verifier that proved it) disagrees with CPython.
"""
import random
import warnings

WORKLOAD_RULE = ('run-time monitors of the property\'s contracts over a workload of random/ring-heavy/junk SELFIES '
                 'decoded under 6 tables, corpus + special SMILES encoded (strict and not), configuration histories '
                 'with valid and invalid tables, index code 0..4200, atom symbols; each item replayable by itself')


def _items(seed, scale):
    from harness import gen, enc, encfloor
    rnd = random.Random(seed)
    out = []
    tabs = ['default', 'octet_rule', 'hypervalent', 'tight', 'big', 'qonly0']
    for i in range(60 * scale):
        n = rnd.choice((1, 2, 3, 5, 8, 12, 20, 30))
        out.append(('dec', gen.rand_selfies(rnd, n), rnd.choice(tabs)))
    for i in range(25 * scale):
        out.append(('dec', gen.ring_heavy(rnd, rnd.choice((4, 8, 14, 22))), rnd.choice(tabs)))
    for i in range(15 * scale):
        out.append(('dec', gen.junk_selfies(rnd, rnd.choice((1, 2, 4, 7))), rnd.choice(tabs)))
    for s in ('[C][=C][#N][O][Branch1][C][F][Ring1][Ring1]', '[C].[C][Ring1][C]', '[NH4+1].[Cl-1]', '[C][Branch2][C][C][C]',
              '[C][C][C][Ring3]', '[C@@H1][Branch1][C][F][Cl]', '[/C][=C][\\F]', '[C][nop][C]', '[13CH3][Fe+2]',
              '[C][Ring1][Ring1][Ring1][Ring1]', '[C][=C][=Ring1][C]', '[O][=Branch1][C][=O][O]', '[epsilon][C]'):
        out.append(('dec', s, rnd.choice(tabs)))
    cor = enc.corpus()
    small = [s for s in cor if len(s) <= 40]
    for s in rnd.sample(small, min(len(small), 12 * scale)) + rnd.sample(encfloor.SPECIAL, min(len(encfloor.SPECIAL), 12 * scale)):
        out.append(('enc', s, rnd.choice(('default', 'hypervalent', 'octet_rule')), rnd.random() < 0.7))
    hist_ops = ['default', 'octet_rule', 'hypervalent', 'bogus', {'C': 4, '?': 3}, {'C': -1, '?': 1}, {'C': 4}, 5, None,
                {'?': 2, 'N+1': 4, 'O-1': 1}, {'?': 1, 'C+0': 2}, {'?': 1, 'C': 2.5}, {'?': 1, 'Fe+2': 6, 'Cl': 7}, {}]
    for i in range(2 * scale):
        out.append(('api', [rnd.choice(hist_ops) for _ in range(6)]))
    for n in rnd.sample(range(0, 4200), 12 * scale) + [0, 15, 16, 255, 256, 4095, 4096, -1]:
        out.append(('idx', n))
    syms = gen.ATOMS + gen.LEGACY + gen.JUNK + ['[C@@H1]', '[13CH3]', '[Fe+10]', '[=Fe+2]', '[O-1]', '[#N+1]', '[CH0]',
                                               '[/C]', '[\\N]', '[C+0]', '[C--]', '[12]', '[H]', '[=H]']
    for s in rnd.sample(syms, min(len(syms), 20 * scale)):
        out.append(('atom', s))
    for i in range(6 * scale):
        out.append(('split', gen.junk_selfies(rnd, 5) if i % 2 else gen.rand_selfies(rnd, 6)))
    # well-formed strings with characters a regex / splitlines / C-string based counter would stumble over (the len_selfies
    # clauses are guarded by well-formedness, so random junk alone would leave them unevaluated)
    for s in ('', '[C][\n][F]', '[C].[\r\n].[F].', '[][ ][\x00]', '[a\nb][\u2028][\x85].[é]', '[C][=C][F].[C]', '[\\][(][*].[{}]'):
        out.append(('split', s))
    rnd.shuffle(out)
    return out


def run_item(item):
    """one workload item on the real library (monitors, if installed, observe it)"""
    import selfies as sf
    from harness import common
    from selfies import grammar_rules as G
    from selfies.utils import smiles_utils as SU
    kind = item[0]
    with warnings.catch_warnings():
        warnings.simplefilter('ignore')
        try:
            if kind == 'dec':
                common.set_table(item[2])
                sf.decoder(item[1])
                sf.decoder(item[1], attribute=True)
            elif kind == 'enc':
                common.set_table(item[2])
                x = sf.encoder(item[1], strict=item[3])
                sf.decoder(x)
            elif kind == 'api':
                for t in item[1]:
                    try:
                        sf.set_semantic_constraints(t) if t is not None else sf.set_semantic_constraints()
                    except Exception:
                        pass
                    sf.get_semantic_constraints()
                    sorted(sf.get_semantic_robust_alphabet())
                    for nm in ('default', 'octet_rule', 'hypervalent', 'nope'):
                        try:
                            sf.get_preset_constraints(nm)
                        except ValueError:
                            pass
                    sf.decoder('[C][=C][#N][O][Branch1][C][F][Ring1][Ring1][S][=S][=S][P]')
            elif kind == 'idx':
                syms = G.get_selfies_from_index(item[1])
                G.get_index_from_selfies(*syms)
            elif kind == 'atom':
                G.process_atom_symbol(item[1])
                SU.smiles_to_atom(item[1])
                SU.smiles_to_atom(item[1].strip('[]'))
            elif kind == 'split':
                list(sf.split_selfies(item[1]))
                sf.len_selfies(item[1])
        except Exception:
            pass        # outcomes are judged by the monitors only; totality is C08/C09's business
        finally:
            try:
                sf.set_semantic_constraints('default')
            except Exception:
                pass


def _work(job):
    from vf import core
    pid, targets, items = job
    ld = core.Loaded()
    mon = ld.monitors()
    mon.max_violations = 40
    mon.install(only=set(targets))
    bad = []
    try:
        from harness import watchdog
        for it in items:
            n0 = len(mon.violations)
            try:
                watchdog.call(lambda: run_item(it), 30)
            except watchdog.Hang:
                break       # a call that does not return is C08/C09's finding; the cross-check stops here
            for v in mon.violations[n0:]:
                if pid in v['props'] and sum(1 for b in bad if b['clause'] == v['oid']) < 2:
                    bad.append({'clause': v['oid'], 'detail': '%s on the call %s' % (v['detail'], v['call'],),
                                'input': {'workload_item': list(it), 'targets': sorted(targets)},
                                'monitor': {k: v[k] for k in ('oid', 'kind', 'detail', 'call')}})
    finally:
        mon.uninstall()
    return mon.counts, mon.errors, bad


def _jsonable(it):
    return [list(x) if isinstance(x, tuple) else x for x in it]


def run(ctx, pid, targets):
    from harness.par import pmap, chunks
    scale = 8 if ctx.tier == 'quick' else 60
    items = _items(ctx.seed * 7919 + 11, scale)
    targets = [t for t in targets if '::' in t]
    res = pmap(_work, [(pid, targets, ch) for ch in chunks(items, 16)])
    counts, errors, bad = {}, {}, []
    for c, e, b in res:
        for k, v in c.items():
            counts[k] = counts.get(k, 0) + v
        errors.update(e)
        bad += b
    mine = {k: v for k, v in counts.items() if not k.endswith('pre-miss')}
    return {'monitor_evaluations': sum(mine.values()), 'monitor_clauses_evaluated': len(mine),
            'monitor_pre_miss': sum(v for k, v in counts.items() if k.endswith('pre-miss')),
            'monitor_clauses_not_evaluable_at_run_time': sorted(errors), 'monitor_items': len(items),
            'monitor_rule': WORKLOAD_RULE, 'violations': bad, 'counts': mine}


def replay(d):
    """re-run one workload item under the monitors of the recorded targets; True when the clause holds again"""
    from vf import core
    it = d['input']['workload_item']
    ld = core.Loaded()
    mon = ld.monitors()
    mon.install(only=set(d['input']['targets']))
    try:
        run_item(it)
    finally:
        mon.uninstall()
    hit = [v for v in mon.violations if v['oid'] == d['clause']]
    return not hit, repr(hit[:1])
