"""Fork-based parallel map for bounded runs (16 cores)."""
import multiprocessing as mp
import os

_FN = None


class HarnessTimeout(Exception):
    pass


def _call(arg):
    return _FN(arg)


def pmap(fn, items, procs=None):
    global _FN
    items = list(items)
    if not items:
        return []
    procs = procs or min(int(os.environ.get('VERIF_PROCS', '16')), len(items))
    if procs <= 1:
        return [fn(x) for x in items]
    _FN = fn
    ctx = mp.get_context('fork')
    # safety net: a library call that never returns must not hang the check for ever (C08/C09 cap every call and
    # name the input; elsewhere the stage is given up as undecided)
    budget = float(os.environ.get('VERIF_MAP_TIMEOUT', '5400'))
    with ctx.Pool(procs) as pool:
        try:
            return pool.map_async(_call, items, chunksize=1).get(timeout=budget)
        except mp.TimeoutError:
            pool.terminate()
            raise HarnessTimeout('no result from the worker pool within %.0f s' % budget)


def chunks(seq, n):
    seq = list(seq)
    k = max(1, (len(seq) + n - 1) // n)
    return [seq[i:i + k] for i in range(0, len(seq), k)]
