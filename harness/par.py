"""Fork-based parallel map for bounded runs (16 cores)."""
import multiprocessing as mp
import os

_FN = None


def _call(arg):
    return _FN(arg)


def pmap(fn, items, procs=None):
    global _FN
    items = list(items)
    if not items:
        return []
    procs = procs or min(int(os.environ.get('VERIF_PROCS', '16')), len(items))
    if procs <= 1:
        return [fn(x) for x in items]
    _FN = fn
    ctx = mp.get_context('fork')
    with ctx.Pool(procs) as pool:
        return pool.map(_call, items, chunksize=1)


def chunks(seq, n):
    seq = list(seq)
    k = max(1, (len(seq) + n - 1) // n)
    return [seq[i:i + k] for i in range(0, len(seq), k)]
