"""Input generators for the bounded stand-ins (deterministic given a seed)."""
import random

ATOMS = ['[C]', '[=C]', '[#C]', '[N]', '[=N]', '[#N]', '[O]', '[=O]', '[S]', '[=S]', '[#S]', '[P]', '[=P]', '[F]',
         '[Cl]', '[Br]', '[I]', '[B]', '[H]', '[C@]', '[C@@]', '[C@H1]', '[C@@H1]', '[N+1]', '[=N+1]', '[O-1]',
         '[S+1]', '[/C]', '[\\C]', '[/N]', '[\\O]', '[13C]', '[13CH3]', '[2H]', '[Fe+2]', '[Na+1]', '[Cl-1]', '[Si]',
         '[CH2]', '[NH1]', '[OH0]', '[B-1]', '[P+1]']
BRANCH = ['[Branch1]', '[=Branch1]', '[#Branch1]', '[Branch2]', '[=Branch2]', '[#Branch2]', '[Branch3]', '[=Branch3]',
          '[#Branch3]']
RING = ['[Ring1]', '[=Ring1]', '[#Ring1]', '[Ring2]', '[=Ring2]', '[#Ring2]', '[Ring3]', '[=Ring3]', '[#Ring3]',
        '[-/Ring1]', '[/-Ring1]', '[\\/Ring1]', '[//Ring2]', '[\\\\Ring1]', '[-\\Ring2]']
INDEXS = ['[C]', '[Ring1]', '[Ring2]', '[Branch1]', '[=Branch1]', '[#Branch1]', '[Branch2]', '[=Branch2]',
          '[#Branch2]', '[O]', '[N]', '[=N]', '[=C]', '[#C]', '[S]', '[P]']
LEGACY = ['[Branch1_1]', '[Branch1_2]', '[Branch1_3]', '[Branch2_1]', '[Branch2_2]', '[Branch3_3]', '[Expl=Ring1]',
          '[Expl#Ring1]', '[Expl/Ring1]', '[Expl\\Ring2]', '[Expl=Ring3]', '[C@@Hexpl]', '[O+expl]', '[13Cexpl]',
          '[=N+expl]', '[/C@expl]', '[Cexpl]', '[NHexpl]', '[O-expl]', '[Fe++expl]', '[#C-expl]', '[CH3expl]',
          '[cexpl]', '[nexpl]', '[cHexpl]', '[nHexpl]', '[cH1expl]', '[=cexpl]', '[seexpl]', '[oexpl]', '[c+expl]',
          '[expl]', '[=expl]', '[1expl]', '[Hexpl]', '[hexpl]', '[C@@@expl]', '[Xxexpl]']
JUNK = ['[', ']', '[]', '[[C]]', '[C', 'C]', 'C', '.', '..', '[nop]', '[epsilon]', '[ch1]', '[xng2]', '[Ceps]',
        '[Branch4]', '[Ring0]', '[Ring9]', '[=Branch]', '[Branch1_4]', '[Expl=Ring4]', '[expl]', '[=expl]', '[/expl]',
        '[C+0]', '[C+10]', '[CH10]', '[CHH]', '[C@@@]', '[Cc]', '[c]', '[Xx]', '[?]', '[*]', '[٣C]', '[CH٣]',
        '[C+١]', '[é]', '[C\x00]', ' ', '\n', '[ C]', '[C ]', '[=]', '[#]', '[/]', '[\\]', '[==C]', '[C=]',
        '[12]', '[1C2]', '[HH1]', '[H1]', '[Hexpl]', '[Zz]', '[A]', '[Ringng1]', '[chch]', '[ngng]', '[-Ring1]',
        '[--Ring1]', '[=/Ring1]', '[Branch1][', '[C][', '].[', '[C].', '.[C]', '[C]..[C]', '[nop', 'nop]', '[.]',
        '{}', '{', '}', '{0}', '{1}', '{x}', '[C]{}', '{}[C', '[C][N{1}', '[C][{x}', '[{}]', '%s', '%d', '%(x)s', '[C%s',
        '\\', '\\n', '[C\\]']


def rand_selfies(rnd, n, pools=(ATOMS, BRANCH, RING), weights=(6, 2, 2), dot=0.02, nop=0.03):
    out = []
    for _ in range(n):
        r = rnd.random()
        if r < dot:
            out.append('.')
        elif r < dot + nop:
            out.append('[nop]')
        else:
            pool = rnd.choices(pools, weights)[0]
            out.append(rnd.choice(pool))
    return ''.join(out)


def ring_heavy(rnd, n):
    """Strings that stay alive (high-capacity atoms) with many ring symbols and explicit index symbols."""
    out = []
    for _ in range(n):
        r = rnd.random()
        if r < 0.55:
            out.append(rnd.choice(['[C]', '[S]', '[P]', '[N]', '[Si]', '[C]', '[C]']))
        elif r < 0.85:
            out.append(rnd.choice(RING[:9]))
            out.append(rnd.choice(INDEXS))
        elif r < 0.95:
            out.append(rnd.choice(BRANCH[:3]))
            out.append(rnd.choice(INDEXS[:6]))
        else:
            out.append(rnd.choice(['.', '[=C]', '[O]', '[F]']))
    return ''.join(out)


def junk_selfies(rnd, n):
    out = []
    for _ in range(n):
        r = rnd.random()
        if r < 0.35:
            out.append(rnd.choice(JUNK))
        elif r < 0.45:
            out.append(rnd.choice(LEGACY))
        else:
            out.append(rnd.choice(rnd.choice([ATOMS, BRANCH, RING, INDEXS])))
    return ''.join(out)
