"""Encoder-side property contracts evaluated on the real library (bounded stand-ins for C03, C04, C05, C10).

analyze(smiles) runs encoder -> decoder -> encoder on the real code and judges the result with the independent
SMILES reader (spec/smiles_reader.py).  Returns a list of (clause, detail).
"""
import sys

import selfies as sf
from spec import smiles_reader as R
from spec.derivation import capacity


def _needs_pi(m, i):
    """Standard aromatic atom kinds only (C05 statement): returns True/False, or None for kinds not judged here."""
    a = m.atoms[i]
    nbrs = m.adjacent(i)     # aromatic atoms, and atoms written upper-case but joined by explicit ':' bonds
    sigma = 0
    for j in nbrs:
        o = m.order(i, j)
        sigma += 1 if o == 1.5 else o
    n_arom = sum(1 for j in nbrs if m.order(i, j) == 1.5)
    if n_arom == 0:
        return None
    if not a.bracket:
        if a.element == 'C':
            return sigma <= 3
        if a.element in ('N', 'P'):
            return sigma == 2
        if a.element in ('O', 'S'):
            return False if sigma == 2 else None
        return None
    if a.charge == 0 and a.hcount == 0 and a.element in ('N', 'P', 'O', 'S'):
        # [n] [p] [o] [s] (also isotope-labelled): a bare n / p / o / s has no implicit H either, same atom
        if a.element in ('N', 'P'):
            return sigma == 2
        return False if sigma == 2 else None
    if a.element == 'N' and a.charge == 0 and a.hcount == 1 and sigma == 2:
        return False                       # [nH]
    if a.element == 'N' and a.charge == 0 and a.hcount == 0:
        return sigma == 2                  # [n] like n; substituted n has sigma 3
    if a.element == 'N' and a.charge == 1 and a.hcount in (0, 1) and sigma + a.hcount == 3:
        return True                        # [n+], [nH+]
    if a.element == 'C' and a.charge == 0 and a.hcount in (0, 1) and sigma + a.hcount <= 3:
        return True
    return None


def kekulizable(m):
    """Independent decision (standard aromatic kinds only): does an alternating single/double assignment exist?
    -> True / False / None (None: some aromatic atom is of a kind not judged here).  Uses networkx's blossom matching."""
    import networkx as nx
    need = {}
    for i, a in enumerate(m.atoms):
        if True:
            if not any(m.order(i, j) == 1.5 for j in m.adjacent(i)):
                continue
            r = _needs_pi(m, i)
            if r is None:
                return None
            need[i] = r
    g = nx.Graph()
    nodes = [i for i, r in need.items() if r]
    g.add_nodes_from(nodes)
    for (i, j), o in m.bonds.items():
        if o == 1.5 and need.get(i) and need.get(j):
            g.add_edge(i, j)
    mt = nx.max_weight_matching(g, maxcardinality=True)
    return 2 * len(mt) == len(nodes)


def analyze(s, reencode=True, stereo=True):
    out = []
    try:
        m_in = R.read_smiles(s)
    except R.SmilesSyntaxError as e:
        # the independent reader rejects the input: nothing to compare molecules with, but whatever the encoder
        # returns for it must still be decodable and stable (C10 speaks about every accepted SMILES)
        try:
            sel = sf.encoder(s)
        except sf.EncoderError:
            return [('skip', 'oracle and encoder both reject the input: %s' % e.reason)]
        try:
            smi = sf.decoder(sel)
        except Exception as e2:
            return [('C10:decodable', 'decoder raised %s on encoder output %r (input %r)' % (type(e2).__name__, sel, s))]
        if reencode:
            try:
                sel2 = sf.encoder(smi)
                if sel2 != sel:
                    return [('C10:stable', 'encoder(decoder(x)) = %r != x = %r (via %r)' % (sel2, sel, smi))]
            except sf.EncoderError:
                return [('C10:stable', 're-encoding %r raised EncoderError' % smi)]
        return [('skip', 'oracle rejects input (encoder output decodable and stable): %s' % e.reason)]
    kek = kekulizable(m_in) if any(a.aromatic for a in m_in.atoms) else None
    try:
        sel = sf.encoder(s)
    except sf.EncoderError as e:
        first = str(e).split('\n')[0]
        if kek is True and 'semantic constraints' in first:
            # rejected by the strict valence check, not by kekulization: the completeness clause is about the latter
            try:
                sf.encoder(s, strict=False)
                return [('rejected', first)]
            except sf.EncoderError as e2:
                first = str(e2).split('\n')[0]
        if kek is True:
            return [('C05:complete', 'an alternating single/double assignment exists for %r (standard aromatic atom '
                     'kinds) but the encoder raised EncoderError: %s' % (s, first))]
        return [('rejected', first)]
    if kek is False:
        out.append(('C05:rejects-unkekulizable', 'no alternating assignment exists for %r but the encoder returned %r'
                    % (s, sel)))
    try:
        smi = sf.decoder(sel)
    except Exception as e:
        # the encoder accepted the molecule (strict) and its output cannot be decoded under the same table: C10 says
        # so directly, and C03 ("decoding the result under K yields a SMILES whose i-th atom ...") has nothing to yield
        return out + [('C10:decodable', 'decoder raised %s on encoder output %r' % (type(e).__name__, sel)),
                      ('C03:decodes', 'decoder raised %s on the strict encoder output %r of %r' % (type(e).__name__, sel, s))]
    try:
        m_out = R.read_smiles(smi)
    except R.SmilesSyntaxError as e:
        return [('C03:readable', 'round-trip output %r is not well-formed: %s' % (smi, e.reason))]
    ok, why = R.same_molecule(m_in, m_out, check_h=True, kekule_ok=True)
    if not ok:
        out.append(('C03:same-molecule', '%s (selfies %r, output %r)' % (why, sel, smi)))
        stereo = False      # the atom-indexed clauses below need the same molecule; re-encoding stability does not
    # C05: kekulisation sanity on aromatic input atoms
    arom = [i for i, a in enumerate(m_in.atoms)
            if a.aromatic or any(m_in.order(i, j) == 1.5 for j in m_in.adjacent(i))] if ok else []
    if arom:
        for i in arom:
            if m_out.atoms[i].aromatic:
                out.append(('C05:kekulized', 'atom %d still aromatic in output %r' % (i, smi)))
                break
            dbl = [j for j in m_in.adjacent(i) if m_in.order(i, j) == 1.5 and m_out.order(i, j) == 2]
            if len(dbl) > 1:
                out.append(('C05:one-double-bond', 'atom %d has %d double bonds inside the aromatic system (%r)'
                            % (i, len(dbl), smi)))
                break
            need = _needs_pi(m_in, i)
            if need is True and len(dbl) != 1:
                out.append(('C05:needs-pi', 'atom %d (%s) needs a pi bond, got %d (%r)' % (i, m_in.atoms[i].token,
                                                                                         len(dbl), smi)))
                # C03: 'aromatic input bonds become a consistent single/double assignment' (and the implicit
                # hydrogen count of the atom changes with it)
                out.append(('C03:aromatic-assignment', 'atom %d (%s) of %r needs one double bond among its aromatic '
                            'bonds, the output %r gives it %d' % (i, m_in.atoms[i].token, s, smi, len(dbl))))
                break
            if need is False and len(dbl) != 0:
                out.append(('C05:no-pi', 'atom %d (%s) must not get a ring double bond (%r)' % (i, m_in.atoms[i].token,
                                                                                               smi)))
                break
    if stereo:
        for i, a in enumerate(m_in.atoms):
            if a.chirality is not None:
                p1, p2 = R.stereo_parity(m_in, i), R.stereo_parity(m_out, i)
                if p1 != p2:
                    out.append(('C04:tetrahedral', 'atom %d (%s): handedness %r in input, %r in output %r (selfies %r)'
                                % (i, a.token, p1, p2, smi, sel)))
                    break
        # every '/' '\\' mark is found again on the same bond, at the same end, with the same character
        def marks(m):
            return {k: v for k, v in m.bond_marks.items() if m.order(k[0], k[1]) == 1}
        a, b = marks(m_in), marks(m_out)
        if a != b:
            diff = sorted(set(a.items()) ^ set(b.items()))
            out.append(('C04:double-bond', 'stereo marks differ at %r: input %r output %r (selfies %r)'
                        % (diff[:4], s, smi, sel)))
    if reencode:
        try:
            sel2 = sf.encoder(smi)
            if sel2 != sel:
                out.append(('C10:stable', 'encoder(decoder(x)) = %r != x = %r (via %r)' % (sel2, sel, smi)))
        except sf.EncoderError as e:
            out.append(('C10:stable', 're-encoding %r raised EncoderError' % smi))
    return out or [('ok', sel)]


def analyze_order_independence(s, rnd, n=3):
    """C05 (and C03): acceptance and the resulting molecule do not depend on the atom order of the spelling.
    Different atom orders may legitimately select different Kekule structures of the same aromatic system, so the
    molecule is compared through analyze() of each respelling (same sigma skeleton, H, charges as ITS input, which is
    the same molecule by construction of the writer) and acceptance must be equal."""
    from spec import smiles_writer as W
    try:
        m = R.read_smiles(s)
    except R.SmilesSyntaxError:
        return []
    base = _enc(s)
    out = []
    for _ in range(n):
        try:
            s2, perm = W.random_traversal(m, rnd)
        except Exception as e:
            return [('skip', 'writer failed: %r' % (e,))]
        r2 = _enc(s2)
        if (base[0] == 'ok') != (r2[0] == 'ok'):
            out.append(('C05:order-independent-acceptance', '%r -> %s but respelling %r -> %s' % (s, base[0], s2, r2[0])))
            break
        if base[0] == 'ok':
            for cl, d in analyze(s2, reencode=False):
                if cl.startswith('C0'):
                    out.append((cl, 'respelling %r of %r: %s' % (s2, s, d)))
            if out:
                break
    return out


def _enc(s):
    try:
        return ('ok', sf.decoder(sf.encoder(s)))
    except sf.EncoderError:
        return ('EncoderError',)
    except Exception as e:
        return ('other', type(e).__name__)


def corpus():
    import os
    p = os.path.join(os.path.dirname(os.path.abspath(__file__)), 'corpus.txt')
    return [l.strip() for l in open(p) if l.strip()]


RELAXED = None


def relaxed_table():
    t = sf.get_preset_constraints('hypervalent')
    t.update({'P': 7, 'P-1': 8, 'P+1': 6, '?': 12})
    return t
