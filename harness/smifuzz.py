"""Grammar-driven SMILES fuzzer for the bounded encoder-side checks (C03 C04 C05 C09 C10 C17).

The committed corpus covers ordinary chemistry; the seeded changes that were first missed all needed an unusual but
legal SPELLING (bond symbols on ring digits, %nn labels, bracket atoms with every field, isotope 0, explicit H0,
chirality on odd atoms, several fragments, ring digits and branches in every order).  This generator writes such
spellings systematically: a random tree with ring closures whose valences are kept within conservative limits (so the
strict encoder accepts most of them under the relaxed table), atoms and bonds drawn from the whole SMILES grammar the
library supports.  The strings are judged like every other input: by the independent reader / writer in /verif/spec.
"""
import random

ORGANIC = [('C', 4), ('C', 4), ('C', 4), ('N', 3), ('O', 2), ('S', 2), ('P', 3), ('F', 1), ('Cl', 1), ('Br', 1), ('I', 1),
           ('B', 3)]
BRACKET_EL = [('C', 4), ('N', 3), ('O', 2), ('S', 6), ('P', 5), ('Si', 4), ('B', 3), ('Fe', 6), ('Se', 2), ('Al', 3),
              ('Sn', 4), ('Cl', 1), ('Na', 1)]
AROMATIC = ['c1ccccc1', 'c1ccncc1', 'c1cc[nH]c1', 'c1ccoc1', 'c1ccsc1', 'c1cnccn1', 'c1ccc2ccccc2c1', 'n1ccccc1']


class _Gen:
    def __init__(self, rnd):
        self.rnd = rnd
        self.next_label = rnd.choice((1, 1, 1, 8, 9, 10, 97))
        self.open = []          # [label, atom id, free valence holder index]
        self.natoms = 0
        self.free = []          # remaining valence per atom id
        self.out = []

    def label(self):
        n = self.next_label
        self.next_label += 1
        return n

    def lab_text(self, n):
        return str(n) if n < 10 else '%%%d' % n

    def atom(self, need):
        """emit an atom able to carry `need` more bond order on top of what it gets here; returns its id"""
        rnd = self.rnd
        if rnd.random() < 0.62:
            cands = [(e, v) for e, v in ORGANIC if v >= need + 0]
            el, val = rnd.choice(cands or [('C', 4)])
            text = el
        else:
            cands = [(e, v) for e, v in BRACKET_EL if v >= need]
            el, val = rnd.choice(cands or [('C', 4)])
            iso = rnd.choice(['', '', '', '13', '2', '0', '015', '238'])
            h = 0
            htxt = ''
            room = val - need
            if room > 0 and rnd.random() < 0.5:
                h = rnd.randint(0, min(room, 3))
                htxt = rnd.choice(['H0'] if h == 0 else (['H', 'H1'] if h == 1 else ['H%d' % h]))
            chg = ''
            if rnd.random() < 0.25:
                chg = rnd.choice(['+', '-', '+1', '-1', '++', '+2', '--', '-2', '+3'])
            chi = rnd.choice(['@', '@@']) if (rnd.random() < 0.12 and val - h >= 3) else ''
            text = '[%s%s%s%s%s]' % (iso, el, chi, htxt, chg)
            val = val - h
        self.out.append(text)
        self.free.append(val)
        self.natoms += 1
        return self.natoms - 1

    def bond(self, a_free, b_free, ring=False):
        """choose a bond symbol and order that both ends can afford"""
        rnd = self.rnd
        m = min(a_free, b_free)
        r = rnd.random()
        if m >= 2 and r < 0.13:
            return '=', 2
        if m >= 3 and r < 0.16:
            return '#', 3
        if r < 0.24:
            return '-', 1
        if r < 0.30 and not ring:
            return rnd.choice(['/', '\\']), 1
        return '', 1

    def chain(self, prev, depth, budget):
        """continue from atom `prev` (None at a fragment start)"""
        rnd = self.rnd
        while budget[0] > 0:
            budget[0] -= 1
            if prev is None:
                cur = self.atom(1 if budget[0] > 0 else 0)
            else:
                if self.free[prev] <= 0:
                    return
                sym, order = self.bond(self.free[prev], 3)
                pos = len(self.out)
                self.out.append(sym)
                cur = self.atom(order)
                if self.free[cur] < order:       # the drawn atom cannot afford it: fall back to a single bond
                    self.out[pos] = '' if sym in ('=', '#') else sym
                    order = 1
                self.free[prev] -= order
                self.free[cur] -= order
            # ring digits on this atom, before and/or after branches
            def rings():
                if self.open and rnd.random() < 0.35:
                    k = rnd.randrange(len(self.open))
                    lab, a = self.open[k]
                    if a != cur and a != prev and self.free[cur] > 0 and self.free[a] > 0 and cur - a >= 2:
                        sym, order = self.bond(self.free[cur], self.free[a], ring=True)
                        self.out.append(sym + self.lab_text(lab))
                        self.free[cur] -= order
                        self.free[a] -= order
                        self.open.pop(k)
                if self.free[cur] > 1 and rnd.random() < 0.22 and len(self.open) < 3:
                    lab = self.label()
                    self.open.append((lab, cur))
                    self.out.append(self.lab_text(lab))
            if rnd.random() < 0.8:
                rings()
            nb = 0
            while self.free[cur] > 1 and depth < 3 and budget[0] > 1 and rnd.random() < 0.28 and nb < 3:
                nb += 1
                self.out.append('(')
                sub = [rnd.randint(1, 3)]
                budget[0] -= sub[0]
                self.chain(cur, depth + 1, sub)
                self.out.append(')')
            if nb and rnd.random() < 0.15:
                rings()         # a ring digit written after a branch (legal, unusual)
            prev = cur
            if depth == 0 and rnd.random() < 0.06 and budget[0] > 0 and not self.open:
                self.out.append('.')
                prev = None
            elif depth > 0 and rnd.random() < 0.45:
                return

    def close_all(self, prev):
        # close what is still open with fresh carbons hanging off a chain
        while self.open:
            lab, a = self.open.pop()
            if self.free[a] <= 0:
                return None
            self.out.append('C')
            self.out.append('C' + self.lab_text(lab))
            self.free[a] -= 1
        return True


def one(rnd):
    g = _Gen(rnd)
    if rnd.random() < 0.25:
        g.out.append(rnd.choice(AROMATIC))
        if rnd.random() < 0.5:
            return ''.join(g.out)
        g.free.append(0)
        g.natoms += 1
        g.out.append(rnd.choice(['', '-', '.']))
        if g.out[-1] == '.':
            pass
    g.chain(None, 0, [rnd.randint(1, 14)])
    if g.open and g.close_all(None) is None:
        return None
    s = ''.join(g.out)
    return s


def strings(seed, n):
    rnd = random.Random(seed)
    out, seen = [], set()
    tries = 0
    while len(out) < n and tries < 20 * n:
        tries += 1
        s = one(rnd)
        if s and s not in seen and len(s) < 120:
            seen.add(s)
            out.append(s)
    return out
