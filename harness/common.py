"""Shared helpers for the bounded stand-ins: drive the public API of the real library and capture views."""
import itertools
import sys

import selfies as sf

DEC = sys.modules['selfies.decoder']
ENC = sys.modules['selfies.encoder']
SU = sys.modules['selfies.utils.smiles_utils']
BC = sys.modules['selfies.bond_constraints']
GR = sys.modules['selfies.grammar_rules']

TABLES = {
    'default': 'default',
    'octet_rule': 'octet_rule',
    'hypervalent': 'hypervalent',
    'qonly0': {'?': 0},
    'tight': {'?': 2, 'C': 3, 'N': 1, 'O': 0, 'F': 1, 'C+1': 2, 'N+1': 5, 'S': 9, 'P': 12, 'Fe+2': 4},
    'big': {'?': 9, 'C': 12, 'N': 10, 'O': 9, 'S': 11, 'Cl': 0, 'H': 1, 'O-1': 0, 'Fe+10': 3},
}


def set_table(t):
    sf.set_semantic_constraints(TABLES[t] if isinstance(t, str) and t in TABLES else t)
    return sf.get_semantic_constraints()


def mol_view(mol):
    atoms = [(a.element, a.isotope, a.chirality, a.h_count, a.charge) for a in mol._atoms]
    bonds, stereo = {}, {}
    for (s, d), b in mol._bond_dict.items():
        bonds[(min(s, d), max(s, d))] = b.order
        if b.stereo is not None:
            stereo[(s, d)] = b.stereo
    adj = [[b.dst for b in lst] for lst in mol._adj_list]
    return {'atoms': atoms, 'bonds': bonds, 'stereo': stereo, 'adj': adj, 'roots': list(mol._roots),
            'bond_counts': list(mol._bond_counts), 'aromatic': [a.is_aromatic for a in mol._atoms]}


class Capture:
    """Captures the MolecularGraph handed to mol_to_smiles inside selfies.decoder (name rebound, /repo untouched)."""

    def __init__(self):
        self.mol = None
        self.real = DEC.mol_to_smiles

    def __enter__(self):
        def wrapper(mol, attribute=False):
            self.mol = mol
            return self.real(mol, attribute)
        DEC.mol_to_smiles = wrapper
        return self

    def __exit__(self, *a):
        DEC.mol_to_smiles = self.real


def decode_view(s, **kw):
    with Capture() as c:
        out = sf.decoder(s, **kw)
    return out, mol_view(c.mol)


def strings_upto(symbols, maxlen):
    for n in range(0, maxlen + 1):
        for tup in itertools.product(symbols, repeat=n):
            yield ''.join(tup)
