"""Static effect (frame) obligations over the real ast: which module-level objects the functions reachable from an
entry point may read or write.  Syntactic and conservative in what it flags; re-derived from /repo on every run."""
import ast

MUTATORS = {'append', 'extend', 'insert', 'pop', 'popleft', 'appendleft', 'remove', 'clear', 'update', 'setdefault',
            'add', 'discard', 'sort', 'reverse', 'popitem', '__setitem__', 'cache_clear', 'move_to_end', 'rotate'}


def calls_of(fn):
    out = set()
    for n in ast.walk(fn):
        if isinstance(n, ast.Call):
            if isinstance(n.func, ast.Name):
                out.add(n.func.id)
            elif isinstance(n.func, ast.Attribute):
                out.add(n.func.attr)
        elif isinstance(n, ast.Attribute):
            out.add(n.attr)          # properties are calls too (bonding_capacity)
    return out


def reachable(repo, entries, stop=()):
    """keys of the functions reachable from `entries` without passing through a function whose bare name is in `stop`"""
    seen, todo = set(), list(entries)
    while todo:
        k = todo.pop()
        if k in seen or k not in repo.funcs:
            continue
        if k.split('::')[1].split('.')[-1] in stop:
            continue
        seen.add(k)
        for name in calls_of(repo.funcs[k]):
            if name in stop:
                continue
            for kk in repo.byname.get(name, []):
                todo.append(kk)
            if name in repo.classes:
                rel = repo.classes[name][0]
                for kk in list(repo.funcs):
                    if kk.startswith('%s::%s.' % (rel, name)):
                        todo.append(kk)
    return seen


def module_level_names(tree):
    names = set()
    for node in tree.body:
        if isinstance(node, (ast.Assign, ast.AnnAssign, ast.AugAssign)):
            targets = node.targets if isinstance(node, ast.Assign) else [node.target]
            for t in targets:
                for n in ast.walk(t):
                    if isinstance(n, ast.Name):
                        names.add(n.id)
    return names


def local_names(fn):
    out = {a.arg for a in fn.args.args + fn.args.kwonlyargs}
    if fn.args.vararg:
        out.add(fn.args.vararg.arg)
    if fn.args.kwarg:
        out.add(fn.args.kwarg.arg)
    glob = set()
    for n in ast.walk(fn):
        if isinstance(n, ast.Global):
            glob |= set(n.names)
    for n in ast.walk(fn):
        if isinstance(n, ast.Name) and isinstance(n.ctx, ast.Store) and n.id not in glob:
            out.add(n.id)
        elif isinstance(n, (ast.For, ast.comprehension)):
            for m in ast.walk(n.target):
                if isinstance(m, ast.Name):
                    out.add(m.id)
    return out, glob


def reads_of_names(repo, keys, names):
    """sites (key, lineno, name) where a function in `keys` mentions one of the given module-level / API names"""
    out = []
    for key in sorted(keys):
        fn = repo.funcs[key]
        loc, glob = local_names(fn)
        for n in ast.walk(fn):
            nm = None
            if isinstance(n, ast.Name) and n.id in names and (n.id not in loc or n.id in glob):
                nm = n.id
            elif isinstance(n, ast.Attribute) and n.attr in names:
                nm = n.attr
            if nm:
                out.append((key, n.lineno, nm))
    return out
