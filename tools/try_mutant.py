#!/usr/bin/env python3
"""Dev tool: run a property check against a scratch copy of /repo with a patch or a textual edit applied.
usage: try_mutant.py <prop>[,<prop>...] --patch file.diff | --edit relpath OLD NEW   [--tier quick]"""
import argparse, os, shutil, subprocess, sys, tempfile
ap = argparse.ArgumentParser()
ap.add_argument('props')
ap.add_argument('--patch')
ap.add_argument('--edit', nargs=3, action='append', default=[])
ap.add_argument('--tier', default='quick')
ap.add_argument('--keep', action='store_true')
a = ap.parse_args()
tmp = tempfile.mkdtemp(prefix='vmut_')
try:
    root = os.path.join(tmp, 'repo')
    subprocess.check_call(['git', '-C', '/repo', 'worktree', 'add', '-q', '--detach', root, 'HEAD'])
    if a.patch:
        subprocess.check_call(['git', '-C', root, 'apply', os.path.abspath(a.patch)])
    for rel, old, new in a.edit:
        p = os.path.join(root, rel)
        s = open(p).read()
        assert s.count(old) >= 1, 'pattern not found: %r' % old
        open(p, 'w').write(s.replace(old, new, 1))
    out = os.path.join(tmp, 'out')
    os.makedirs(out)
    env = dict(os.environ, VERIF_REPO=root, VERIF_OUT=out)
    rc_all = 0
    for pid in a.props.split(','):
        r = subprocess.run(['/verif/check', pid, '--tier', a.tier], env=env, capture_output=True, text=True)
        print('--- %s exit=%d' % (pid, r.returncode))
        print(r.stdout[-3000:])
        if r.returncode not in (0, 1, 2):
            print(r.stderr[-3000:])
        for f in sorted(os.listdir(os.path.join(out, 'replays'))) if os.path.isdir(os.path.join(out, 'replays')) else []:
            if a.keep:
                print(open(os.path.join(out, 'replays', f)).read()[:1500])
finally:
    subprocess.call(['git', '-C', '/repo', 'worktree', 'remove', '--force', os.path.join(tmp, 'repo')])
    shutil.rmtree(tmp, ignore_errors=True)
