"""One-off: sample a committed SMILES corpus for the encoder-side bounded checks from /repo/tests/test_sets."""
import csv, glob, random, sys
sys.path[:0] = ['/verif', '/repo']
from spec import smiles_reader as R
rnd = random.Random(12345)
cands = []
for f in sorted(glob.glob('/repo/tests/test_sets/**/*.csv', recursive=True)):
    rows = list(csv.reader(open(f)))
    if not rows:
        continue
    hdr = [h.strip().lower() for h in rows[0]]
    col = None
    for name in ('smiles', 'mol', 'smile', 'in', 'smiles '):
        if name in hdr:
            col = hdr.index(name)
    if col is None:
        col = max(range(len(hdr)), key=lambda i: sum(len(r[i]) for r in rows[1:50] if len(r) > i))
    ss = [r[col].strip() for r in rows[1:] if len(r) > col and r[col].strip()]
    rnd.shuffle(ss)
    cands += [(f.split('/')[-1], s) for s in ss[:4000]]
def feats(s):
    return (('@' in s), ('/' in s or '\\' in s), any(c in s for c in 'cnos'), ('+' in s or '-' in s),
            ('%' in s), ('.' in s), min(len(s) // 25, 4))
buckets = {}
for f, s in cands:
    try:
        m = R.read_smiles(s)
    except Exception:
        continue
    if len(m.atoms) > 80:
        continue
    buckets.setdefault(feats(s), []).append(s)
out = []
for k, v in sorted(buckets.items()):
    rnd.shuffle(v)
    out += v[:60]
out = sorted(set(out))
open('/verif/harness/corpus.txt', 'w').write('\n'.join(out) + '\n')
print(len(out), len(buckets))
