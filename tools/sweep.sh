#!/bin/bash
# seed sweep of all quick checks on the unchanged tree: prints every run that does not exit 0
cd "$(dirname "$0")/.."
export VERIF_OUT=$(mktemp -d)
for seed in ${SEEDS:-1 2 3 4 5 6 7 8}; do
  for p in ${PROPS:-$(seq -f "C%02g" 1 19)}; do
    out=$(VERIF_SEED=$seed ./check $p --tier ${TIER:-quick} 2>&1); rc=$?
    if [ $rc -ne 0 ]; then echo "seed=$seed $p exit=$rc"; echo "$out" | grep -v KNOWN | tail -5; fi
  done
done
echo sweep-done
rm -rf "$VERIF_OUT"
