#!/usr/bin/env python3
"""Run property checks against every seeded change (scratch worktree each) and record which checks catch which.
usage: seed_matrix.py [--all-props] [seed ids...]"""
import json, os, re, shutil, subprocess, sys, tempfile
from concurrent.futures import ThreadPoolExecutor
allp = '--all-props' in sys.argv
ids = [a for a in sys.argv[1:] if not a.startswith('--')] or sorted(os.listdir('/verif/seeded'))
PROPS = ['C%02d' % i for i in range(1, 20)]

def run(sid):
    d = '/verif/seeded/' + sid
    meta = json.load(open(d + '/meta.json'))
    own = meta['breaks_property']
    props = PROPS if allp else [own]
    tmp = tempfile.mkdtemp(prefix='vmx_')
    root = os.path.join(tmp, 'repo')
    res = {}
    try:
        subprocess.check_call(['git', '-C', '/repo', 'worktree', 'add', '-q', '--detach', root, 'HEAD'])
        subprocess.check_call(['git', '-C', root, 'apply', d + '/patch.diff'])
        out = os.path.join(tmp, 'out'); os.makedirs(out)
        env = dict(os.environ, VERIF_REPO=root, VERIF_OUT=out, VERIF_PROCS='4')
        for p in props:
            r = subprocess.run(['/verif/check', p], env=env, capture_output=True, text=True)
            lines = [l for l in r.stdout.splitlines() if l.startswith('VIOLATION') or l.startswith('UNDECIDED')]
            clauses = []
            for l in lines:
                m = re.search(r'replays/%s-(.*?)-[0-9a-f]{10}\.json( no-failing-input-found)?' % p, l)
                if m:
                    clauses.append(m.group(1) + (' [no-failing-input-found]' if m.group(2) else ''))
            res[p] = {'exit': r.returncode, 'clauses': clauses}
    finally:
        subprocess.call(['git', '-C', '/repo', 'worktree', 'remove', '--force', root])
        shutil.rmtree(tmp, ignore_errors=True)
    meta.setdefault('checks_run', {}).update(res)
    meta['detected_by'] = sorted(p for p, v in meta['checks_run'].items() if v['exit'] == 1)
    json.dump(meta, open(d + '/meta.json', 'w'), indent=1)
    return sid, {p: v['exit'] for p, v in res.items()}

with ThreadPoolExecutor(4) as ex:
    for sid, r in ex.map(run, ids):
        print(sid, r, flush=True)
