#!/usr/bin/env python3
"""Copy the confirmed seeded changes from /tmp/seed into /verif/seeded/<id>/ (patch.diff, demo.py, notes.md, meta.json)."""
import json, os, shutil, subprocess, sys
props = {json.loads(l)['id']: json.loads(l) for l in open('/verif/properties.jsonl')}
for pid in sorted(props):
    for x in 'AB':
        src = '/tmp/seed/%s/%s' % (pid, x)
        if not os.path.exists(src + '/patch.diff'):
            continue
        dst = '/verif/seeded/%s-%s' % (pid, x)
        os.makedirs(dst, exist_ok=True)
        patch = src + '/patch_on_head.diff' if os.path.exists(src + '/patch_on_head.diff') else src + '/patch.diff'
        demo = src + '/demo_on_head.py' if os.path.exists(src + '/demo_on_head.py') else src + '/demo.py'
        shutil.copy(patch, dst + '/patch.diff')
        shutil.copy(demo, dst + '/demo.py')
        if os.path.exists(src + '/notes.md'):
            shutil.copy(src + '/notes.md', dst + '/notes.md')
        conf = {}
        cf = '/tmp/seedconf/%s_%s.json' % (pid, x)
        if os.path.exists(cf):
            conf = json.load(open(cf))
        meta = {'id': '%s-%s' % (pid, x), 'breaks_property': pid,
                'source': 'independent sub-agent given only the property text and a scratch worktree',
                'adapted': {'patch': os.path.basename(patch) != 'patch.diff', 'demo': os.path.basename(demo) != 'demo.py',
                            'why': 'rebased onto /repo HEAD after the fix: commits' if os.path.basename(patch) != 'patch.diff'
                            or os.path.basename(demo) != 'demo.py' else None},
                'confirmation': {k: conf.get(k) for k in ('applies', 'demo_without', 'demo_with', 'fast_suite', 'fast_suite_rc',
                                                           'dataset_failed', 'dataset_ok')},
                'confirmation_cmds': ['git worktree add <scratch> HEAD; git apply patch.diff',
                                      '/venv/bin/python demo.py  (exit 1 with the change, exit 0 without)',
                                      'pytest tests/test_selfies.py tests/test_selfies_utils.py tests/test_specific_cases.py',
                                      'pytest tests/test_on_datasets.py (test_path1/6 fail on emptied data, test_path12 is flaky on the unchanged tree)']}
        old = {}
        if os.path.exists(dst + '/meta.json'):
            old = json.load(open(dst + '/meta.json'))
        for k in ('needs', 'detected_by', 'checks_run'):
            if k in old:
                meta[k] = old[k]
        json.dump(meta, open(dst + '/meta.json', 'w'), indent=1)
print('imported', len(os.listdir('/verif/seeded')))
