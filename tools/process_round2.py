#!/usr/bin/env python3
"""Confirm and import a second-round seeded change: process_round2.py R8 C09"""
import json, os, shutil, subprocess, sys
rid, pid = sys.argv[1], sys.argv[2]
for x in 'AB':
    src = '/tmp/seed/%s/%s' % (rid, x)
    if not os.path.exists(src + '/patch.diff'):
        continue
    conf = '/tmp/seedconf/%s_%s.json' % (rid, x)
    subprocess.run(['python3', '/verif/tools/confirm_seed.py', src, conf], capture_output=True)
    c = json.load(open(conf))
    dst = '/verif/seeded/%s-%s' % (rid, x)
    os.makedirs(dst, exist_ok=True)
    for f in ('patch.diff', 'demo.py', 'notes.md'):
        if os.path.exists(src + '/' + f):
            shutil.copy(src + '/' + f, dst + '/' + f)
    meta = {'id': '%s-%s' % (rid, x), 'breaks_property': pid, 'round': {'R': 2, 'S': 3, 'T': 4, 'U': 5, 'V': 6, 'W': 7, 'X': 8, 'Y': 9, 'Z': 10}.get(rid[0], 2),
            'source': 'independent sub-agent given only the property text, an area of the code base and a scratch worktree',
            'confirmation': {k: c.get(k) for k in ('applies', 'demo_without', 'demo_with', 'fast_suite', 'fast_suite_rc',
                                                   'dataset_failed', 'dataset_ok')}}
    json.dump(meta, open(dst + '/meta.json', 'w'), indent=1)
    ok = c.get('applies') and c.get('demo_without') == 0 and c.get('demo_with') == 1 and c.get('fast_suite_rc') == 0 and c.get('dataset_ok')
    print(rid, x, 'CONFIRMED' if ok else 'PROBLEM %r' % {k: c.get(k) for k in ('applies', 'demo_without', 'demo_with', 'fast_suite_rc', 'dataset_failed')})
