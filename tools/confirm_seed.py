#!/usr/bin/env python3
"""Confirm a seeded change: applies on /repo HEAD in a scratch worktree, demo fails with it and passes without,
the existing suite still passes.  usage: confirm_seed.py <dir with patch.diff, demo.py> <out.json>"""
import json, os, shutil, subprocess, sys, tempfile
d, out = sys.argv[1], sys.argv[2]
tmp = tempfile.mkdtemp(prefix='vseed_')
wt = os.path.join(tmp, 'wt')
res = {'dir': d}
try:
    subprocess.check_call(['git', '-C', '/repo', 'worktree', 'add', '-q', '--detach', wt, 'HEAD'])
    def run(cmd, timeout=1500):
        p = subprocess.run(cmd, cwd=wt, capture_output=True, text=True, timeout=timeout)
        return p.returncode, (p.stdout + p.stderr)[-1500:]
    rc, o = run(['/venv/bin/python', os.path.join(d, 'demo.py')])
    res['demo_without'] = rc
    a = subprocess.run(['git', '-C', wt, 'apply', os.path.join(d, 'patch.diff')], capture_output=True, text=True)
    res['applies'] = a.returncode == 0
    if a.returncode != 0:
        res['apply_err'] = a.stderr[-500:]
    else:
        rc, o = run(['/venv/bin/python', os.path.join(d, 'demo.py')])
        res['demo_with'] = rc
        res['demo_out'] = o[-600:]
        rc, o = run(['/venv/bin/python', '-m', 'pytest', '-q', '-p', 'no:cacheprovider', '--timeout=900',
                     'tests/test_selfies.py', 'tests/test_selfies_utils.py', 'tests/test_specific_cases.py'])
        res['fast_suite_rc'] = rc
        res['fast_suite'] = o.strip().splitlines()[-1] if o.strip() else ''
        rc, o = run(['/venv/bin/python', '-m', 'pytest', '-q', '-p', 'no:cacheprovider', '--timeout=900',
                     'tests/test_on_datasets.py'])
        fails = sorted(set(l.split('[')[1].split(']')[0] for l in o.splitlines() if l.startswith('FAILED') and '[' in l))
        res['dataset_failed'] = fails
        res['dataset_ok'] = set(fails) <= {'test_path1', 'test_path6', 'test_path12'}
finally:
    subprocess.call(['git', '-C', '/repo', 'worktree', 'remove', '--force', wt])
    shutil.rmtree(tmp, ignore_errors=True)
json.dump(res, open(out, 'w'), indent=1)
print(json.dumps(res)[:300])
