#!/usr/bin/env python3
"""Apply one textual edit to a scratch worktree of /repo and run property checks against it.
usage: try_edit.py <relpath> <old> <new> <Cxx> [Cyy...]   (old/new are Python string literals or raw text)"""
import os, shutil, subprocess, sys, tempfile
rel, old, new = sys.argv[1:4]
props = sys.argv[4:]
tmp = tempfile.mkdtemp(prefix='vte_')
root = os.path.join(tmp, 'repo')
try:
    subprocess.check_call(['git', '-C', '/repo', 'worktree', 'add', '-q', '--detach', root, 'HEAD'])
    p = os.path.join(root, rel)
    s = open(p).read()
    if s.count(old) != 1:
        print('edit site not unique / not found:', s.count(old)); sys.exit(2)
    open(p, 'w').write(s.replace(old, new))
    r = subprocess.run(['/venv/bin/python', '-m', 'pytest', '-q', '-x', '-p', 'no:cacheprovider', 'tests/test_selfies.py',
                        'tests/test_selfies_utils.py', 'tests/test_specific_cases.py'], cwd=root, capture_output=True, text=True)
    print('suite:', r.stdout.strip().splitlines()[-1] if r.stdout.strip() else r.returncode)
    out = os.path.join(tmp, 'out'); os.makedirs(out)
    env = dict(os.environ, VERIF_REPO=root, VERIF_OUT=out)
    for pr in props:
        r = subprocess.run(['/verif/check', pr], env=env, capture_output=True, text=True)
        lines = [l[:200] for l in r.stdout.splitlines() if l.startswith(('VIOLATION', 'UNDECIDED', 'CHECKER'))]
        print(pr, 'exit', r.returncode, lines[:4])
finally:
    subprocess.call(['git', '-C', '/repo', 'worktree', 'remove', '--force', root])
    shutil.rmtree(tmp, ignore_errors=True)
