#!/usr/bin/env python3
"""Regenerate MANIFEST.json from the property modules (props/Cxx.py)."""
import importlib, json, os, sys
sys.path.insert(0, '/verif')
os.environ.setdefault('VERIF_REPO', '/repo')
sys.path.insert(0, '/repo')
props = [json.loads(l) for l in open('/verif/properties.jsonl')]
DESIGN = {'C%02d' % i: 'DESIGN.md 7.%d' % i for i in range(1, 20)}
checks, na, served = [], [], []
for pr in props:
    pid = pr['id']
    try:
        m = importlib.import_module('props.' + pid)
    except ModuleNotFoundError:
        na.append({'property_id': pid, 'reason': 'check not built yet'})
        continue
    targets = getattr(m, 'TARGETS', [])
    level = getattr(m, 'LEVEL', 'other') if targets else 'exploration'
    if getattr(m, 'FORCE_LEVEL', None):
        level = m.FORCE_LEVEL
    served.append(pid)
    tech = ('contract-based deductive verification: VCs generated from the ast of the real functions in /repo and '
            'discharged by z3/cvc5; the same contracts are also evaluated by run-time monitors on real calls '
            '(CPython cross-check, bounded)' if level == 'proof' else
            'contracts on the real functions: deductive VCs (z3/cvc5) for the clauses listed as proved, runtime-checked '
            'contracts over a bounded domain (labelled bounded) for the rest; the proved contracts are also evaluated by '
            'run-time monitors on real calls (CPython cross-check, bounded)' if targets else
            'runtime-checked property contracts on the real API over a bounded domain (bounded stand-in, not a proof); '
            'no function of this property is within reach of the verifier (DESIGN 13.5)')
    checks.append({
        'property_id': pid, 'quick_cmd': './check %s --tier quick' % pid, 'thorough_cmd': './check %s --tier thorough' % pid,
        'evidence_file': 'evidence/%s.json' % pid, 'replay_cmd_template': './check --replay {path}', 'engine': 'pyvc',
        'level_claimed': {'category': level, 'text': m.EXPLANATION, 'design_ref': DESIGN[pid]},
        'level_note': 'Trusted: z3/cvc5; the pyvc encoding of Python semantics (DESIGN 2.2); trusted builtin specs (DESIGN 2.4); '
                      'for bounded parts the independent oracles in /verif/spec (SMILES reader, derivation rules) and the stated '
                      'domain bounds. ' + '; '.join(getattr(m, 'TRUSTED', [])),
        'technique': tech})
man = json.load(open('/verif/MANIFEST.json'))
man['checks'] = checks
man['not_applicable'] = na
man['engines'][0]['serves_properties'] = served
man['notes'] = ('Every check runs the deductive clauses of its property (pyvc: VCs from the ast of the real functions, z3/cvc5), '
                'vacuity probes, finite ground checks of module constants, the bounded stand-in (runtime contracts on the real code), '
                'the CPython cross-check of the proved contracts (run-time monitors over a workload) and replays '
                'the recorded known findings (KNOWN_FINDINGS.json). Exit codes: 0 held, 1 violation, 2 undecided only, 3 checker error.')
json.dump(man, open('/verif/MANIFEST.json', 'w'), indent=1)
print(len(checks), 'checks;', len(na), 'not applicable')
